"""E1 front end: run the sefacts driver over /repo for a feature configuration and
load the resulting fact files.  Facts are cached by a hash of /repo's working tree
(every file outside target/ and .git/), the driver binary and the configuration, so
several checks invoked one after another share one extraction; any edit to /repo
changes the hash and forces a fresh extraction."""
import fcntl
import hashlib
import json
import os
import shutil
import subprocess
import sys
import time

VERIF = os.path.dirname(os.path.dirname(os.path.abspath(__file__)))
REPO = os.environ.get("VERIF_REPO", "/repo")
BUILD = os.environ.get("VERIF_BUILD") or os.path.join(VERIF, ".build")   # VERIF_BUILD: private cache for parallel mutation workers
DRIVER_DIR = os.path.join(VERIF, "sefacts")
DRIVER = os.path.join(DRIVER_DIR, "target", "release", "sefacts")

CONFIGS = {
    "default": "",
    "explanations": "explanations",
    "checks": "checks",
    "checks_explanations": "checks,explanations",
}


class FactError(Exception):
    pass


def _nightly_sysroot():
    return subprocess.check_output(["rustc", "+nightly", "--print", "sysroot"], text=True).strip()


def repo_hash(repo=None):
    repo = repo or REPO
    h = hashlib.sha256()
    for root, dirs, files in os.walk(repo):
        dirs[:] = sorted(d for d in dirs if d not in ("target", ".git"))
        for f in sorted(files):
            p = os.path.join(root, f)
            rel = os.path.relpath(p, repo)
            h.update(rel.encode())
            h.update(b"\0")
            try:
                with open(p, "rb") as fh:
                    h.update(fh.read())
            except OSError:
                h.update(b"<unreadable>")
            h.update(b"\0")
    return h.hexdigest()


def ensure_driver():
    """Build the driver if missing (setup_cmd normally did it)."""
    src = os.path.join(DRIVER_DIR, "src", "main.rs")
    if os.path.exists(DRIVER) and os.path.getmtime(DRIVER) >= os.path.getmtime(src):
        return
    os.makedirs(BUILD, exist_ok=True)
    with open(os.path.join(BUILD, "driver.lock"), "w") as lk:
        fcntl.flock(lk, fcntl.LOCK_EX)
        if os.path.exists(DRIVER) and os.path.getmtime(DRIVER) >= os.path.getmtime(src):
            return
        env = dict(os.environ, CARGO_NET_OFFLINE="true")
        r = subprocess.run(["cargo", "+nightly", "build", "--release", "--offline"], cwd=DRIVER_DIR,
                           env=env, stdout=subprocess.PIPE, stderr=subprocess.STDOUT, text=True)
        if r.returncode != 0 or not os.path.exists(DRIVER):
            raise FactError("cannot build sefacts driver:\n" + r.stdout[-4000:])


def _driver_id():
    st = os.stat(DRIVER)
    return "%d-%d" % (st.st_size, int(st.st_mtime))


def _run_driver(manifest_dir, cfg_name, features, out_dir, tgt_dir, src_hash, extra_args, crates, member_prefixes):
    os.makedirs(out_dir, exist_ok=True)
    for f in os.listdir(out_dir):
        if f.endswith(".json") or f == "STAMP":
            os.unlink(os.path.join(out_dir, f))
    # cargo's freshness cache would silently skip the wrapper: drop member fingerprints
    fp = os.path.join(tgt_dir, "debug", ".fingerprint")
    if os.path.isdir(fp):
        for d in os.listdir(fp):
            if any(d.startswith(p) for p in member_prefixes):
                shutil.rmtree(os.path.join(fp, d), ignore_errors=True)
    env = dict(os.environ)
    env.update({
        "LD_LIBRARY_PATH": _nightly_sysroot() + "/lib:" + env.get("LD_LIBRARY_PATH", ""),
        "RUSTFLAGS": "-Zmir-opt-level=0 -Awarnings",
        "RUSTC_WORKSPACE_WRAPPER": DRIVER,
        "CARGO_TARGET_DIR": tgt_dir,
        "CARGO_NET_OFFLINE": "true",
        "CARGO_INCREMENTAL": "0",
        "SEFACTS_OUT": out_dir,
        "SEFACTS_TAG": cfg_name,
        "SEFACTS_SRC_HASH": src_hash,
    })
    if crates:
        env["SEFACTS_CRATES"] = ",".join(crates)
    cmd = ["cargo", "+nightly", "check", "--offline"] + extra_args
    if features:
        cmd += ["--features", features]
    r = subprocess.run(cmd, cwd=manifest_dir, env=env, stdout=subprocess.PIPE, stderr=subprocess.STDOUT, text=True)
    if r.returncode != 0:
        raise FactError("fact extraction failed for %s (cargo check exit %d):\n%s" % (cfg_name, r.returncode, r.stdout[-6000:]))
    return r.stdout


def _prune(parent, prefix, keep):
    """keep only the most recently used fact directories of one configuration"""
    try:
        ds = [os.path.join(parent, d) for d in os.listdir(parent) if d.startswith(prefix)]
    except OSError:
        return
    def age(d):
        try:
            return os.path.getmtime(os.path.join(d, "STAMP"))
        except OSError:
            return 0
    ds.sort(key=age, reverse=True)
    for d in ds[keep:]:
        shutil.rmtree(d, ignore_errors=True)


def ensure_facts(cfg_name, quiet=True):
    """Facts of /repo (lib + lib-as-test + tests/entry) for one feature configuration.
    Returns the directory with the JSON files."""
    if cfg_name not in CONFIGS:
        raise FactError("unknown configuration " + cfg_name)
    ensure_driver()
    src_hash = repo_hash()
    # one directory per (configuration, working-tree hash): concurrent checks against different trees
    # (mutation / seed runs use VERIF_REPO) can never read each other's facts
    out_dir = os.path.join(BUILD, "facts", "%s-%s" % (cfg_name, src_hash[:16]))
    tgt_dir = os.path.join(BUILD, "tgt-" + cfg_name)
    stamp = "%s %s %s" % (src_hash, _driver_id(), cfg_name)
    os.makedirs(BUILD, exist_ok=True)
    with open(os.path.join(BUILD, "facts-%s.lock" % cfg_name), "w") as lk:
        fcntl.flock(lk, fcntl.LOCK_EX)
        sp = os.path.join(out_dir, "STAMP")
        if os.path.exists(sp) and open(sp).read() == stamp:
            os.utime(sp, None)
            return out_dir
        _prune(os.path.join(BUILD, "facts"), cfg_name + "-", keep=int(os.environ.get("VERIF_FACTS_KEEP", "24")))
        t0 = time.time()
        _run_driver(REPO, cfg_name, CONFIGS[cfg_name], out_dir, tgt_dir, src_hash, ["--tests"],
                    ["slotted_egraphs", "entry"], ["slotted-egraphs-", "slotted_egraphs-"])
        need = ["slotted_egraphs.json", "slotted_egraphs.test.json", "entry.test.json"]
        for n in need:
            p = os.path.join(out_dir, n)
            if not os.path.exists(p):
                raise FactError("fact file %s was not produced (cargo skipped the wrapper?)" % p)
        with open(sp, "w") as f:
            f.write(stamp)
        if not quiet:
            print("facts[%s] extracted in %.1fs" % (cfg_name, time.time() - t0), file=sys.stderr)
    return out_dir


def ensure_fixture_facts(name, quiet=True):
    """Facts of a fixture crate under /verif/fixtures/<name> (it path-depends on /repo)."""
    ensure_driver()
    fx = os.path.join(VERIF, "fixtures", name)
    src_hash = repo_hash() + ":" + repo_hash(fx)
    out_dir = os.path.join(BUILD, "facts", "fx-%s-%s" % (name, hashlib.sha256(src_hash.encode()).hexdigest()[:16]))
    tgt_dir = os.path.join(BUILD, "tgt-fx-" + name)
    stamp = "%s %s" % (src_hash, _driver_id())
    os.makedirs(BUILD, exist_ok=True)
    with open(os.path.join(BUILD, "facts-fx-%s.lock" % name), "w") as lk:
        fcntl.flock(lk, fcntl.LOCK_EX)
        sp = os.path.join(out_dir, "STAMP")
        if os.path.exists(sp) and open(sp).read() == stamp:
            os.utime(sp, None)
            return out_dir
        _prune(os.path.join(BUILD, "facts"), "fx-%s-" % name, keep=3)
        # the fixture is built in a scratch copy whose manifest points at the repository under analysis;
        # its lock file must be the repository's
        work = os.path.join(BUILD, "fx-work-" + name)
        shutil.rmtree(work, ignore_errors=True)
        shutil.copytree(fx, work, ignore=shutil.ignore_patterns("target", "Cargo.lock", "Cargo.toml"))
        with open(os.path.join(fx, "Cargo.toml.in")) as f:
            manifest = f.read().replace("@REPO@", REPO)
        with open(os.path.join(work, "Cargo.toml"), "w") as f:
            f.write(manifest)
        shutil.copyfile(os.path.join(REPO, "Cargo.lock"), os.path.join(work, "Cargo.lock"))
        _run_driver(work, "fx-" + name, "", out_dir, tgt_dir, src_hash, ["--lib"], [name],
                    [name.replace("_", "-") + "-", name + "-", "slotted-egraphs-", "slotted_egraphs-"])
        p = os.path.join(out_dir, name + ".json")
        if not os.path.exists(p):
            raise FactError("fixture fact file %s was not produced" % p)
        with open(sp, "w") as f:
            f.write(stamp)
    return out_dir


def load(cfg_name, crate="slotted_egraphs", test=False):
    d = ensure_facts(cfg_name)
    p = os.path.join(d, crate + (".test" if test else "") + ".json")
    with open(p) as f:
        return json.load(f)


if __name__ == "__main__":
    import concurrent.futures as cf
    names = sys.argv[1:] or list(CONFIGS)
    with cf.ThreadPoolExecutor(len(names)) as ex:
        for n, d in zip(names, ex.map(lambda n: ensure_facts(n, quiet=False), names)):
            print(n, d)

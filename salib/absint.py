"""E5a: path-enumerating abstract interpreter for small loop-free integer code (slot.rs).

Values are affine forms  a*B + c  over at most one symbolic base B (a parameter, a memory cell's
entry value, the payload of a modelled call) or opaque tokens.  Bases carry an interval and a
residue class mod 4 (both optional).  Every path through the body is executed; the result is the
list of paths with their branch conditions, the events (stores to memory cells, aggregates
constructed, calls made, overflow assertions passed) and the returned value.
No solver is involved: conditions are kept as comparisons between affine forms and decided by
interval arithmetic on the single base they mention.
"""
from collections import namedtuple

U32_MAX = (1 << 32) - 1


class Base:
    def __init__(self, name, lo=0, hi=U32_MAX, residue=None):
        self.name = name
        self.lo = lo
        self.hi = hi
        self.residue = residue     # value mod 4 if known

    def __repr__(self):
        return self.name


class Aff:
    """a*base + c ; base None => constant c"""
    __slots__ = ("base", "a", "c")

    def __init__(self, base, a, c):
        self.base = base if a != 0 else None
        self.a = a if base is not None else 0
        self.c = c

    def __repr__(self):
        if self.base is None:
            return str(self.c)
        s = ("%d*%s" % (self.a, self.base.name)) if self.a != 1 else self.base.name
        if self.c:
            s += "%+d" % self.c
        return s

    def __eq__(self, o):
        return isinstance(o, Aff) and self.base is o.base and self.a == o.a and self.c == o.c

    def __hash__(self):
        return hash((id(self.base), self.a, self.c))

    def add(self, k):
        return Aff(self.base, self.a, self.c + k)

    def mul(self, k):
        return Aff(self.base, self.a * k, self.c * k)

    def mod4(self):
        if self.base is None:
            return self.c % 4
        if self.a % 4 == 0:
            return self.c % 4
        if self.base.residue is not None:
            return (self.a * self.base.residue + self.c) % 4
        return None

    def range(self):
        if self.base is None:
            return (self.c, self.c)
        lo = self.a * self.base.lo + self.c
        hi = self.a * self.base.hi + self.c
        return (min(lo, hi), max(lo, hi))


class Opaque:
    def __init__(self, what):
        self.what = what

    def __repr__(self):
        return "<%s>" % (self.what,)


Path = namedtuple("Path", "conds events ret blocks")


class Stuck(Exception):
    pass


class Exec:
    """call_model(name, args, state) -> list of (retval, cond or None) alternatives.
    retval may be ('variant', idx, payload) for Option-like results."""

    def run_closure_value(self, crate, clos, args, st):
        """evaluate a closure value ('closure', def id, captured values) on argument values: [(ret, extra conds, events)]"""
        cb = crate.bodies.get(clos[1])
        if cb is None:
            return None
        pv = {1: ("upvars", {i: v for i, v in enumerate(clos[2])})}
        for i, a in enumerate(args):
            pv[2 + i] = a
        sub = Exec(cb, self.call_model, mem_init=dict(st["mem"]), param_vals=pv, max_paths=50)
        sub.crate = getattr(self, "crate", None)
        paths = sub.run()
        return [(p.ret, list(p.conds), list(p.events)) for p in paths]

    def __init__(self, body, call_model, mem_init=None, param_vals=None, max_paths=200):
        self.b = body
        self.call_model = call_model
        self.mem_init = dict(mem_init or {})
        self.param_vals = dict(param_vals or {})
        self.paths = []
        self.max_paths = max_paths

    # --- places
    def rd_place(self, st, pl):
        env, mem = st["env"], st["mem"]
        projs = [p for p in pl["p"]]
        # memory cell: (*param).field
        fields = [p for p in projs if isinstance(p, dict) and "f" in p and p.get("adt") not in ("tuple", "std::option::Option", "std::ops::ControlFlow", "std::result::Result")]
        if fields and any(p == "*" for p in projs):
            key = fields[-1]["f"]
            if key in mem:
                return mem[key]
            return Opaque("mem:" + key)
        v = env.get(pl["l"], Opaque("local%d" % pl["l"]))
        for p in projs:
            if p == "*":
                continue
            if isinstance(p, dict) and "dc" in p:
                if isinstance(v, tuple) and v[0] == "variant":
                    continue
                continue
            if isinstance(p, dict) and "f" in p:
                if isinstance(v, tuple) and v[0] == "variant":
                    v = v[2]
                elif isinstance(v, tuple) and v[0] == "tuple":
                    v = v[1][p["i"]]
                elif isinstance(v, tuple) and v[0] == "upvars":
                    v = v[1].get(p["i"], Opaque("upvar%d" % p["i"]))
                else:
                    v = Opaque("proj(%r).%s" % (v, p["f"]))
        return v

    def rd_op(self, st, op):
        if op["k"] in ("copy", "move"):
            return self.rd_place(st, op["pl"])
        if op["k"] == "const":
            if "int" in op:
                return Aff(None, 0, int(op["int"]))
            return Opaque("const " + str(op.get("text")))
        return Opaque("op")

    def wr_place(self, st, pl, v):
        projs = pl["p"]
        fields = [p for p in projs if isinstance(p, dict) and "f" in p and p.get("adt") not in ("tuple",)]
        if fields and any(p == "*" for p in projs):
            key = fields[-1]["f"]
            st["mem"][key] = v
            st["events"].append(("store", key, v, list(st["conds"])))
            return
        if not projs:
            st["env"][pl["l"]] = v
        else:
            st["env"][pl["l"]] = Opaque("partial")

    # --- execution
    def run(self):
        st = {"env": dict(self.param_vals), "mem": dict(self.mem_init), "conds": [], "events": [], "blocks": []}
        self._run(0, st, 0)
        return self.paths

    def _fork(self, st):
        return {"env": dict(st["env"]), "mem": dict(st["mem"]), "conds": list(st["conds"]), "events": list(st["events"]), "blocks": list(st["blocks"])}

    def _run(self, bb, st, depth):
        if len(self.paths) > self.max_paths or depth > 400:
            raise Stuck("too many paths / too deep")
        b = self.b
        while True:
            blk = b.blocks[bb]
            st["blocks"].append(bb)
            for s in blk["stmts"]:
                if s["k"] != "assign":
                    continue
                rv = s["rv"]
                k = rv["k"]
                if k in ("use",):
                    v = self.rd_op(st, rv["op"])
                elif k == "cast":
                    v = self.rd_op(st, rv["op"])
                elif k == "ref":
                    v = self.rd_place(st, rv["pl"]) if not any(isinstance(p, dict) and "f" in p and p.get("adt", "").startswith("slot::") for p in rv["pl"]["p"]) else Opaque("ref:" + ".".join(p["f"] for p in rv["pl"]["p"] if isinstance(p, dict) and "f" in p))
                elif k == "discr":
                    x = self.rd_place(st, rv["pl"])
                    v = ("discr", x)
                elif k == "bin":
                    a, c = self.rd_op(st, rv["a"]), self.rd_op(st, rv["b"])
                    op = rv["op"]
                    v = self.binop(op, a, c)
                elif k == "agg":
                    ops = [self.rd_op(st, o) for o in rv["ops"]]
                    if rv.get("agg") == "tuple":
                        v = ("tuple", ops)
                    elif rv.get("agg") == "adt":
                        st["events"].append(("agg", rv["adt"] + "::" + rv["variant"], ops, list(st["conds"]), bb))
                        if rv["adt"] in ("std::option::Option",):
                            v = ("variant", rv["vi"], ops[0] if ops else None)
                        else:
                            v = ("adt", rv["adt"], rv["variant"], ops)
                    elif rv.get("agg") == "closure":
                        v = ("closure", rv.get("def"), ops)
                    else:
                        v = Opaque("agg")
                else:
                    v = Opaque(k)
                self.wr_place(st, s["lhs"], v)
            t = blk["term"]
            k = t["k"]
            if k == "goto":
                bb = t["target"]
            elif k == "return":
                self.paths.append(Path(st["conds"], st["events"], st["env"].get(0), st["blocks"]))
                return
            elif k in ("unreachable", "resume", "terminate"):
                return
            elif k == "drop":
                bb = t["target"]
            elif k == "assert":
                st["events"].append(("assert", t["akind"], [self.rd_op(st, o) for o in t["aops"]], list(st["conds"]), bb))
                bb = t["target"]
            elif k == "switch":
                d = self.rd_op(st, t["discr"])
                alts = [(val, tgt) for val, tgt in t["cases"]] + [("otherwise", t["otherwise"])]
                vals = [v for v, _ in t["cases"]]
                for val, tgt in alts:
                    feas, cond = self.branch(d, val, vals)
                    if not feas:
                        continue
                    st2 = self._fork(st)
                    if cond is not None:
                        st2["conds"].append(cond)
                    self._run(tgt, st2, depth + 1)
                return
            elif k == "call":
                f = t["func"]
                name = f.get("name") if f["k"] == "const" else None
                args = [self.rd_op(st, a) for a in t["args"]]
                st["events"].append(("call", name, args, list(st["conds"]), bb))
                if t["target"] is None:
                    return
                alts = self.call_model(name, args, st, t)
                if len(alts) == 1:
                    v, cond = alts[0]
                    if cond is not None:
                        st["conds"].extend(cond[1]) if cond[0] == "and" else st["conds"].append(cond)
                    self.wr_place(st, t["dest"], v)
                    bb = t["target"]
                else:
                    for v, cond in alts:
                        st2 = self._fork(st)
                        if cond is not None:
                            st2["conds"].extend(cond[1]) if cond[0] == "and" else st2["conds"].append(cond)
                        self.wr_place(st2, t["dest"], v)
                        self._run(t["target"], st2, depth + 1)
                    return
            else:
                raise Stuck("terminator " + k)

    def binop(self, op, a, c):
        if isinstance(a, Aff) and isinstance(c, Aff):
            base = a.base or c.base
            same = a.base is None or c.base is None or a.base is c.base
            if op in ("Add", "AddWithOverflow", "AddUnchecked") and same:
                r = Aff(base, a.a + c.a, a.c + c.c)
            elif op in ("Sub", "SubWithOverflow", "SubUnchecked") and same:
                r = Aff(base, a.a - c.a, a.c - c.c)
            elif op in ("Mul", "MulWithOverflow", "MulUnchecked") and (a.base is None or c.base is None):
                r = c.mul(a.c) if a.base is None else a.mul(c.c)
            elif op == "Shl" and a.base is None and c.base is None:
                r = Aff(None, 0, a.c << c.c)
            elif op == "Rem" and c.base is None:
                return ("rem", a, c.c)
            elif op == "Div" and c.base is None:
                return ("div", a, c.c)
            elif op in ("Le", "Lt", "Ge", "Gt", "Eq", "Ne"):
                return ("cmp", op, a, c)
            else:
                return Opaque("bin:" + op)
            if op.endswith("WithOverflow"):
                return ("tuple", [r, Opaque("ovf")])
            return r
        if op in ("Le", "Lt", "Ge", "Gt", "Eq", "Ne"):
            return ("cmp", op, a, c)
        if op == "Div" and isinstance(c, Aff) and c.base is None:
            return ("div", a, c.c)
        if op == "Rem" and isinstance(c, Aff) and c.base is None:
            return ("rem", a, c.c)
        if op in ("Sub", "SubWithOverflow") and isinstance(c, Aff) and c.base is None:
            r = ("sub", a, c.c)
            return ("tuple", [r, Opaque("ovf")]) if op.endswith("WithOverflow") else r
        return Opaque("bin:" + op)

    def branch(self, d, val, vals):
        """(feasible?, condition) for taking the edge labelled val"""
        if isinstance(d, tuple) and d[0] == "discr":
            x = d[1]
            if isinstance(x, tuple) and x[0] == "variant":
                if val == "otherwise":
                    return (str(x[1]) not in vals, None)
                return (int(val) == x[1], None)
            return (True, ("discr", x, val, tuple(vals)))
        if isinstance(d, tuple) and d[0] == "cmp":
            truth = None
            if val == "otherwise":
                truth = True if vals == ["0"] else None
            elif val == "0":
                truth = False
            elif val == "1":
                truth = True
            return (True, ("cmp", d[1], d[2], d[3], truth))
        if isinstance(d, tuple) and d[0] == "rem":
            if val == "otherwise":
                return (True, ("rem", d[1], d[2], "otherwise", tuple(vals)))
            return (True, ("rem", d[1], d[2], int(val), tuple(vals)))
        if isinstance(d, Aff) and d.base is None:
            if val == "otherwise":
                return (str(d.c) not in vals, None)
            return (int(val) == d.c, None)
        # opaque boolean (e.g. result of starts_with)
        truth = None
        if val == "otherwise":
            truth = True if vals == ["0"] else None
        elif val == "0":
            truth = False
        return (True, ("bool", d, truth))


def cond_implies_gt(conds, x, y):
    """do the path conditions imply x > y ?  x, y affine.  Handles: constants/intervals on one
    base, and a recorded comparison between exactly these two forms (possibly shifted)."""
    if isinstance(x, Aff) and isinstance(y, Aff):
        if x.base is y.base and x.a == y.a:
            return x.c > y.c
        for c in conds:
            if c[0] == "cmp" and c[4] is not None:
                op, l, r, truth = c[1], c[2], c[3], c[4]
                # normalise to l > r or l >= r facts
                facts = []
                if (op, truth) in (("Gt", True), ("Le", False)):
                    facts.append((l, r, 1))     # l >= r + 1
                if (op, truth) in (("Ge", True), ("Lt", False)):
                    facts.append((l, r, 0))     # l >= r
                if (op, truth) in (("Lt", True), ("Ge", False)):
                    facts.append((r, l, 1))
                if (op, truth) in (("Le", True), ("Gt", False)):
                    facts.append((r, l, 0))
                for big, small, k in facts:
                    # want x > y from big >= small + k:  x = big + dx, y = small + dy  =>  x - y >= k + dx - dy
                    if isinstance(big, Aff) and isinstance(small, Aff) and big.base is x.base and big.a == x.a and small.base is y.base and small.a == y.a:
                        dx = x.c - big.c
                        dy = y.c - small.c
                        if k + dx - dy >= 1:
                            return True
        # intervals
        if x.range()[0] > y.range()[1]:
            return True
    return False


def narrowed_range(x, conds):
    """range of an affine form, with the base interval narrowed by comparisons against constants
    recorded on the path"""
    if not isinstance(x, Aff):
        return (0, U32_MAX)
    if x.base is None:
        return (x.c, x.c)
    lo, hi = x.base.lo, x.base.hi
    for c in conds:
        if c[0] != "cmp" or c[4] is None:
            continue
        op, l, r, truth = c[1], c[2], c[3], c[4]
        if isinstance(l, Aff) and isinstance(r, Aff) and l.base is x.base and r.base is None and l.a > 0:
            k = r.c - l.c           # a*B  (op)  k
            a = l.a
            if (op, truth) in (("Lt", True), ("Ge", False)):
                hi = min(hi, (k - 1) // a)
            elif (op, truth) in (("Le", True), ("Gt", False)):
                hi = min(hi, k // a)
            elif (op, truth) in (("Gt", True), ("Le", False)):
                lo = max(lo, k // a + 1)
            elif (op, truth) in (("Ge", True), ("Lt", False)):
                lo = max(lo, -(-k // a))
    v1 = x.a * lo + x.c
    v2 = x.a * hi + x.c
    return (min(v1, v2), max(v1, v2))

"""E3: rule runner.  ./check CNN [--tier quick|thorough] [--replay PATH]"""
import argparse
import hashlib
import importlib
import json
import os
import sys
import time
import traceback

from . import facts, mir

VERIF = facts.VERIF
QUICK_CFGS = ["default", "explanations"]
ALL_CFGS = ["default", "explanations", "checks", "checks_explanations"]


def rule(rid, cfgs="all", doc="", thorough_only=False, once=False):
    """decorator: cfgs = 'all' | list of configuration names in which the anchor exists.
    once=True: rule is configuration independent (runs once with cfg=None)."""
    def deco(fn):
        fn.rule_id = rid
        fn.cfgs = cfgs
        fn.doc = doc or (fn.__doc__ or "").strip()
        fn.thorough_only = thorough_only
        fn.once = once
        return fn
    return deco


class Ctx:
    def __init__(self, prop, tier):
        self.prop = prop
        self.tier = tier
        self.instances = []     # dicts
        self.infos = []
        self._crates = {}
        self.cur_rule = None
        self.cur_cfg = None
        self.role_sets = {}
        self.floors = []
        self.bodies_analysed = {}
        self.extra = {}

    # ------------------------------------------------------------ facts
    def lib(self, cfg=None):
        cfg = cfg or self.cur_cfg or "default"
        k = ("lib", cfg)
        if k not in self._crates:
            self._crates[k] = mir.Crate(facts.load(cfg, "slotted_egraphs"))
            self.bodies_analysed["lib/" + cfg] = len(self._crates[k].bodies)
        return self._crates[k]

    def libtest(self, cfg=None):
        cfg = cfg or self.cur_cfg or "default"
        k = ("libtest", cfg)
        if k not in self._crates:
            self._crates[k] = mir.Crate(facts.load(cfg, "slotted_egraphs", test=True))
            self.bodies_analysed["libtest/" + cfg] = len(self._crates[k].bodies)
        return self._crates[k]

    def tests(self, cfg=None):
        cfg = cfg or self.cur_cfg or "default"
        k = ("tests", cfg)
        if k not in self._crates:
            self._crates[k] = mir.Crate(facts.load(cfg, "entry", test=True), strip_prefix="slotted_egraphs::")
            self.bodies_analysed["tests/" + cfg] = len(self._crates[k].bodies)
        return self._crates[k]

    def fixture(self, name):
        k = ("fx", name)
        if k not in self._crates:
            d = facts.ensure_fixture_facts(name)
            with open(os.path.join(d, name + ".json")) as f:
                self._crates[k] = mir.Crate(json.load(f), strip_prefix="slotted_egraphs::")
            self.bodies_analysed["fixture/" + name] = len(self._crates[k].bodies)
        return self._crates[k]

    # ------------------------------------------------------------ results
    def _rec(self, ok, key, msg, where=None, sample=None, rule=None):
        rid = rule or self.cur_rule
        self.instances.append({
            "rule": rid, "key": "%s:%s:%s" % (self.prop, rid, key), "ok": ok, "msg": msg,
            "where": where, "cfg": self.cur_cfg, "sample": sample,
        })

    def ok(self, key, msg, where=None, sample=None):
        self._rec(True, key, msg, where, sample)

    def bad(self, key, msg, where=None, sample=None):
        self._rec(False, key, msg, where, sample)

    def check(self, cond, key, msg_ok, msg_bad=None, where=None, sample=None):
        if cond:
            self.ok(key, msg_ok, where, sample)
        else:
            self.bad(key, msg_bad or ("NOT: " + msg_ok), where, sample)
        return cond

    def info(self, msg):
        self.infos.append("[%s/%s] %s" % (self.cur_rule, self.cur_cfg, msg))

    def floor(self, what, count, floor):
        """fail closed when a role set / instance count falls below what was counted by hand"""
        self.floors.append({"rule": self.cur_rule, "cfg": self.cur_cfg, "what": what, "count": count, "floor": floor})
        if count < floor:
            self.bad("floor:" + what, "instance count %d below floor %d for %s (anchor missing or rule matched too little)" % (count, floor, what))
            return False
        return True

    def roleset(self, name, members):
        self.role_sets.setdefault(name, {})[self.cur_cfg or "-"] = sorted(members)


def where_of(body, bb=None, line=None):
    if line is None and bb is not None:
        line = body.blocks[bb]["term"].get("line")
    if line is None:
        line = body.line
    return "%s:%s (%s)" % (body.file, line, body.id)


def load_known():
    p = os.path.join(VERIF, "known_findings.json")
    if not os.path.exists(p):
        return {"findings": [], "fixed": []}
    with open(p) as f:
        return json.load(f)


def run_property(prop, tier, replay=None, rules_filter=None, write_evidence=True, level="other", proof=False):
    t0 = time.time()
    mod = importlib.import_module("rules." + prop.lower())
    ctx = Ctx(prop, tier)
    cfgs = QUICK_CFGS if tier == "quick" else ALL_CFGS
    replay_key = None
    if replay:
        with open(replay) as f:
            rj = json.load(f)
        replay_key = rj["key"]
        rules_filter = [rj["rule"]]
        cfgs = ALL_CFGS
    # extract facts for all needed configurations up front, in parallel
    fatal = None
    try:
        import concurrent.futures as cf
        with cf.ThreadPoolExecutor(len(cfgs)) as ex:
            list(ex.map(facts.ensure_facts, cfgs))
    except facts.FactError as e:
        fatal = str(e)
    rules_run = []
    if fatal is None:
        for fn in mod.RULES:
            if rules_filter and fn.rule_id not in rules_filter:
                continue
            if fn.thorough_only and tier != "thorough":
                continue
            if fn.once:
                todo = [None]
            else:
                todo = [c for c in cfgs if fn.cfgs == "all" or c in fn.cfgs]
            for cfg in todo:
                ctx.cur_rule = fn.rule_id
                ctx.cur_cfg = cfg
                n0 = len(ctx.instances)
                try:
                    fn(ctx)
                except mir.AnchorMissing as e:
                    ctx.bad("anchor-missing:" + e.anchor, "anchor missing: %s %s" % (e.anchor, e.why))
                except facts.FactError as e:
                    ctx.bad("fact-extraction", str(e)[-1500:])
                except Exception as e:  # a crash of a rule is a broken check, fail closed
                    ctx.bad("rule-crashed", "rule crashed: %s\n%s" % (e, traceback.format_exc()[-1500:]))
                if len(ctx.instances) == n0:
                    ctx.bad("vacuous", "rule produced no instance at all (vacuous pass refused)")
            rules_run.append(fn.rule_id)
    else:
        ctx.cur_rule = "facts"
        ctx.bad("fact-extraction", fatal[-3000:])

    known = load_known()
    known_keys = {k["key"]: k for k in known.get("findings", []) if k.get("property") == prop}
    # group violations by key
    viol = {}
    for inst in ctx.instances:
        if not inst["ok"]:
            v = viol.setdefault(inst["key"], {"key": inst["key"], "rule": inst["rule"], "msg": inst["msg"], "where": inst["where"], "cfgs": [], "sample": inst["sample"]})
            if inst["cfg"] not in v["cfgs"]:
                v["cfgs"].append(inst["cfg"])
    new_viol = []
    out_lines = []
    os.makedirs(os.path.join(VERIF, "replays"), exist_ok=True)
    for key, v in sorted(viol.items()):
        if replay_key and key != replay_key:
            continue
        if key in known_keys:
            out_lines.append("KNOWN-FINDING: property=%s %s %s" % (prop, key, known_keys[key].get("what", v["msg"])))
            continue
        h = hashlib.sha1(key.encode()).hexdigest()[:12]
        rp = os.path.join(VERIF, "replays", "%s-%s.json" % (prop, h))
        with open(rp, "w") as f:
            json.dump({"property": prop, "rule": v["rule"], "key": key, "message": v["msg"], "where": v["where"], "configurations": v["cfgs"], "detail": v["sample"]}, f, indent=1, default=str)
        new_viol.append(v)
        out_lines.append("VIOLATION property=%s replay=%s" % (prop, rp))
        out_lines.append("  rule=%s key=%s" % (v["rule"], key))
        out_lines.append("  at %s  [cfg: %s]" % (v["where"], ",".join(str(c) for c in v["cfgs"])))
        out_lines.append("  %s" % v["msg"].replace("\n", "\n  "))
    # known findings that no longer reproduce are reported as information
    for k in known_keys:
        if k not in viol and not replay_key:
            out_lines.append("note: known finding %s did not reproduce on this tree" % k)

    wall = time.time() - t0
    oks = [i for i in ctx.instances if i["ok"]]
    distinct = len({i["key"] for i in ctx.instances})
    samples = []
    seen_rules = set()
    for i in ctx.instances:
        if i["rule"] not in seen_rules or len(samples) < 12:
            if sum(1 for s in samples if s["rule"] == i["rule"]) < 3:
                samples.append({"rule": i["rule"], "cfg": i["cfg"], "ok": i["ok"], "instance": i["key"], "what": i["msg"][:400], "where": i["where"]})
                seen_rules.add(i["rule"])
    obligations = distinct
    discharged = len({i["key"] for i in ctx.instances} - set(viol.keys()))
    meta = getattr(mod, "META", {})
    cov = {
        "evaluations": len(ctx.instances),
        "distinct_nontrivial": distinct,
        "rule": "one evaluation = one rule instance (a call site, store, guard, sibling pair or abstract-interpretation obligation found in the MIR of /repo) evaluated in one feature configuration; distinct = distinct instance keys (configuration removed); an instance is non-trivial because every rule refuses to pass with zero matches (floors)",
        "samples": samples[:40],
        "obligations": obligations,
        "discharged": discharged,
        "checker_cmd": "./check %s --tier %s" % (prop, tier),
        "trusted_base": meta.get("trusted_base", ["rustc nightly MIR construction and callee resolution (Instance::try_resolve)", "sefacts fact dump", "salib CFG/role/dependence library", "the frozen role tables in rules/%s.py" % prop.lower()]),
        "explanation": meta.get("explanation", ""),
        "configurations": cfgs,
        "bodies_analysed": ctx.bodies_analysed,
        "rules_run": rules_run,
        "role_sets": ctx.role_sets,
        "floors": ctx.floors,
        "not_decided": meta.get("not_decided", ""),
        "known_findings_matched": sorted(k for k in viol if k in known_keys),
        "info": ctx.infos[:60],
        "violation_keys": sorted(v["key"] for v in new_viol),
    }
    cov.update(ctx.extra)
    ev = {
        "property_id": prop,
        "tier": tier,
        "seed": int(os.environ.get("VERIF_SEED", "0") or 0),
        "level": meta.get("level", "other"),
        "coverage": cov,
        "assumptions": meta.get("assumptions", []),
        "wall_s": round(wall, 2),
        "violations": len(new_viol),
    }
    if write_evidence and not replay and not os.environ.get("VERIF_NO_EVIDENCE"):
        os.makedirs(os.path.join(VERIF, "evidence"), exist_ok=True)
        p = os.path.join(VERIF, "evidence", prop + ".json")
        with open(p + ".tmp", "w") as f:
            json.dump(ev, f, indent=1, default=str)
        os.replace(p + ".tmp", p)
    if os.environ.get("VERIF_DUMP_INSTANCES"):
        with open(os.path.join(os.environ["VERIF_DUMP_INSTANCES"], prop + ".json"), "w") as f:
            json.dump([{k: i[k] for k in ("rule", "key", "ok", "where", "cfg")} for i in ctx.instances], f)
    for l in out_lines:
        print(l)
    print("%s tier=%s: %d rule instances evaluated (%d distinct), %d hold, %d violation(s), %d known finding(s); %.1fs" % (
        prop, tier, len(ctx.instances), distinct, len(oks), len(new_viol), len([k for k in viol if k in known_keys]), wall))
    return 1 if new_viol else 0


def main(argv=None):
    ap = argparse.ArgumentParser()
    ap.add_argument("prop")
    ap.add_argument("--tier", default=os.environ.get("VERIF_TIER", "quick"), choices=["quick", "thorough"])
    ap.add_argument("--replay")
    ap.add_argument("--rule", action="append")
    ap.add_argument("--verbose", "-v", action="store_true")
    a = ap.parse_args(argv)
    sys.path.insert(0, VERIF)
    rc = run_property(a.prop.upper(), a.tier, replay=a.replay, rules_filter=a.rule)
    sys.exit(rc)

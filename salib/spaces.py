"""Slot-space typing (stretch engine).

Every SlotMap is a morphism between *spaces* of slots: S(c) = the parameter slots of the class an id
expression c denotes (rigid), or an unknown space (variable).  AppliedId = (class key k, codomain) with map
S(k) -> codomain.  The types of the library's own primitives (inverse, compose*, identity, keys/values,
slots(id), mk_*_applied_id, apply_slotmap*, find, shape, lookup, union-find access, group membership ...) are
written down once; the types of all other expressions are unknown (a fresh variable that unifies with
anything), so the analysis can only complain where two *known* rigid spaces of different classes are forced
to be equal:  mk_sem_applied_id(to.id, m) with m : S(from) -> ...,  f.compose(g) with cod(f) = S(a) and
dom(g) = S(b), membership of a map over S(a) in the group of class b, and so on.  This is the discipline the
code's own comments follow (`// from.m :: slots(from.id) -> X`).

The analysis is flow-insensitive over operand roles (salib.mir).  Two class keys are considered equal if
the function compares them with == / != anywhere (path-insensitive, errs on the silent side).
"""
import re
from . import mir
from .mir import role_str, strip_role


class Var:
    __slots__ = ("ref", "name")
    _n = 0

    def __init__(self, name=None):
        Var._n += 1
        self.ref = None
        self.name = name or "v%d" % Var._n


class Rigid:
    __slots__ = ("key",)

    def __init__(self, key):
        self.key = key


def find(t):
    while isinstance(t, Var) and t.ref is not None:
        t = t.ref
    return t


class TypeErrorAt(Exception):
    pass


class Scope:
    """typing of the roles of one root function (with its closures)"""

    def __init__(self, crate, body):
        self.crate = crate
        self.body = body
        self.memo = {}
        self.keyuf = {}
        self.errors = []       # (site callsite, message)
        self.sites = 0
        self.decisive = 0
        self.inserters = set()
        self.cur_site = None
        self._collect_key_equalities()
        self._collect_caller_key_equalities()

    # ---- class keys
    def kfind(self, k):
        while self.keyuf.get(k, k) != k:
            k = self.keyuf[k]
        return k

    def kunion(self, a, b):
        a, b = self.kfind(a), self.kfind(b)
        if a != b:
            self.keyuf[a] = b

    def key_of_idrole(self, r):
        """class key of a role of type Id (or AppliedId: its id)"""
        r = strip_role(r)
        if isinstance(r, tuple) and r[0] == "field" and r[2] == "id":
            inner = strip_role(r[1])
            t = self.ty(inner)
            if t[0] == "app":
                return t[1]
            return self.kfind("id:" + role_str(inner, 20))
        if isinstance(r, tuple) and r[0] == "call" and r[1] in ("find_id",):
            return self.kfind("find@%d" % r[4])
        if isinstance(r, tuple) and r[0] == "call" and r[1] == "target_id" and r[3]:
            t = self.ty(r[3][0])
            if t[0] == "pc" and t[1][0] == "app":
                return self.kfind(t[1][1])
            return self.kfind("target_id:" + role_str(r[3][0], 12))
        if isinstance(r, tuple) and r[0] == "call" and r[1] == "src_id":
            return self.kfind("src_id:" + role_str(r[3][0], 12))
        return self.kfind("id:" + role_str(r, 20))

    def _collect_key_equalities(self):
        for b in self.body.all_bodies():
            for c in b.calls:
                if c.callee and c.callee.name in ("eq", "ne") and len(c.args) == 2 and "types::Id" in " ".join(c.callee.gargs[:1]):
                    a0, a1 = b.role_of_operand(c.args[0]), b.role_of_operand(c.args[1])
                    try:
                        self.kunion(self.key_of_idrole(a0), self.key_of_idrole(a1))
                    except RecursionError:
                        pass

    def _collect_caller_key_equalities(self):
        """a helper that is only ever called with two arguments whose class ids the caller compares (`if l.id == r.id
        { self.helper(&l, &r) }`) sees the same class behind both parameters: the comparison lives in the caller"""
        me = self.body
        sites = []
        for b in self.crate.bodies.values():
            for c in b.calls:
                if c.callee and c.callee.target == me.id and not b.blocks[c.bb]["cleanup"]:
                    sites.append((b, c))
        if not sites:
            return
        agreed = None
        for b, c in sites:
            argr = [strip_role(b.role_of_operand(a)) for a in c.args]
            pairs = set()
            for x in b.calls:
                if x.callee and x.callee.name in ("eq", "ne") and len(x.args) == 2 and "types::Id" in " ".join(x.callee.gargs[:1]):
                    sides = []
                    for a in x.args:
                        r = strip_role(b.role_of_operand(a))
                        if isinstance(r, tuple) and r[0] == "field" and r[2] == "id":
                            inner = strip_role(r[1])
                            idx = [i for i, ar in enumerate(argr) if ar == inner]
                            sides.append(idx[0] if idx else None)
                        else:
                            sides.append(None)
                    if None not in sides and sides[0] != sides[1]:
                        pairs.add((min(sides), max(sides)))
            agreed = pairs if agreed is None else (agreed & pairs)
        for i, j in agreed or ():
            ni, nj = me.var_names.get(i + 1), me.var_names.get(j + 1)
            if ni and nj:
                try:
                    self.kunion(self.key_of_idrole(("field", ("param", ni), "id")), self.key_of_idrole(("field", ("param", nj), "id")))
                except RecursionError:
                    pass

    # ---- spaces
    def S(self, key):
        return Rigid(self.kfind(key))

    def unify(self, a, b, what):
        a, b = find(a), find(b)
        if a is b:
            return
        if isinstance(a, Var):
            a.ref = b
            return
        if isinstance(b, Var):
            b.ref = a
            return
        if isinstance(a, Rigid) and isinstance(b, Rigid):
            self.decisive += 1
            if self.kfind(a.key) != self.kfind(b.key):
                self.errors.append((self.cur_site, "%s: slots of class [%s] are used where slots of class [%s] are required" % (what, self.kfind(a.key), self.kfind(b.key))))

    # ---- types: ('map', dom, cod) ('set', sp) ('slot', sp) ('app', key, cod) ('id', key) ('node', sp)
    #             ('tuple', [..]) ('opt', t) ('unk',)
    def unk(self):
        return ("unk",)

    def fresh_map(self):
        return ("map", Var(), Var())

    def ty(self, role, depth=0):
        r = strip_role(role)
        if not isinstance(r, tuple):
            return self.unk()
        k = repr(r) if depth < 30 else None
        if k is not None and k in self.memo:
            return self.memo[k]
        if depth > 30:
            return self.unk()
        t = self._ty(r, depth)
        if k is not None:
            self.memo[k] = t
        return t

    def _param_ty(self, r):
        # find the declared type of the parameter in the body (or closure) that owns it
        name = r[1]
        for b in self.body.all_bodies():
            for l in range(1, b.argc + 1):
                if b.var_names.get(l, "_%d" % l) == name and not (b.kind == "Closure" and l == 1):
                    return self._from_decl(b.local_ty(l), r)
        return self.unk()

    def _from_decl(self, ty, r):
        t = ty.replace("&mut ", "").replace("&", "").strip()
        if t in ("types::AppliedId",) or t.endswith("applied_id::ProvenAppliedId"):
            return ("app", self.kfind("id:" + role_str(r, 20)), Var())
        if t == "slotmap::SlotMap" or t.endswith("perm::ProvenPerm"):
            return self.fresh_map()
        if t.startswith("vec_collections::VecSet<[slot::Slot"):
            return ("set", Var())
        if t == "slot::Slot":
            return ("slot", Var())
        if t == "types::Id":
            return ("id", self.kfind("id:" + role_str(r, 20)))
        return self.unk()

    def _ty(self, r, depth):
        k = r[0]
        if k == "param":
            return self._param_ty(r)
        if k == "phi":
            ts = [self.ty(x, depth + 1) for x in r[1] if not (isinstance(x, tuple) and x[0] == "cycle")]
            ts = [t for t in ts if t[0] != "unk"]
            if not ts:
                return self.unk()
            kinds = {t[0] for t in ts}
            if len(kinds) != 1:
                return self.unk()
            if len(ts) == 1:
                return ts[0]
            kind = ts[0][0]
            # a variable assigned on several paths: its alternatives must live in the same spaces
            if kind == "app":
                for t in ts[1:]:
                    self.kunion(ts[0][1], t[1])
                    self.unify(ts[0][2], t[2], "re-assigned invocation")
                return ("app", self.kfind(ts[0][1]), ts[0][2])
            if kind == "map":
                for t in ts[1:]:
                    self.unify(ts[0][1], t[1], "re-assigned slot map (keys)")
                    self.unify(ts[0][2], t[2], "re-assigned slot map (values)")
                return ts[0]
            if kind in ("set", "slot", "node"):
                for t in ts[1:]:
                    self.unify(ts[0][1], t[1], "re-assigned " + kind)
                return ts[0]
            return self.unk()
        if k == "variant":
            t = self.ty(r[1], depth + 1)
            if t[0] == "opt":
                return ("optin", t[1])
            return t if t[0] != "unk" else self.unk()
        if k == "field":
            base = self.ty(r[1], depth + 1)
            f = r[2]
            if base[0] == "optin":
                return base[1] if f == "0" else self.unk()
            if base[0] == "app":
                if f == "m":
                    return ("map", self.S(base[1]), base[2])
                if f == "id":
                    return ("id", base[1])
                if f == "elem":
                    return base
                return self.unk()
            if f == "elem":
                # classes[I].nodes[sh].elem : shape space -> slots of class I
                inner = strip_role(r[1])
                if isinstance(inner, tuple) and inner[0] == "call" and inner[1] in ("index", "get", "get_mut", "index_mut") and inner[3]:
                    recv = strip_role(inner[3][0])
                    if isinstance(recv, tuple) and recv[0] == "field" and recv[2] == "nodes":
                        cls = strip_role(recv[1])
                        if isinstance(cls, tuple) and cls[0] == "call" and cls[1] in ("index", "get", "get_mut", "index_mut", "unwrap") :
                            c2 = cls
                            while isinstance(c2, tuple) and c2[0] == "call" and c2[1] == "unwrap" and c2[3]:
                                c2 = strip_role(c2[3][0])
                            if isinstance(c2, tuple) and c2[0] == "call" and len(c2[3]) == 2 and mir.role_mentions_field(c2[3][0], "classes"):
                                return ("map", Var(), self.S(self.key_of_idrole(c2[3][1])))
            if base[0] == "map" and f == "elem":
                return base
            if base[0] == "tuple" and f.isdigit() and int(f) < len(base[1]):
                return base[1][int(f)]
            if f == "elem":
                return base      # Proven* wrappers around a typed value
            if base[0] == "pc" and f == "pai":
                return base[1]
            if base[0] == "pc":
                return self.unk()
            return self.unk()
        if k == "agg":
            what = str(r[1])
            if what == "tuple":
                return ("tuple", [self.ty(x, depth + 1) for x in r[2]])
            names = r[3] if len(r) > 3 else []
            if what.endswith("::AppliedId") and "id" in names and "m" in names:
                m = self.ty(r[2][names.index("m")], depth + 1)
                key = self.key_of_idrole(r[2][names.index("id")])
                if m[0] == "map":
                    return ("app", key, m[2])
                return ("app", key, Var())
            if (what.endswith("ProvenAppliedId") or what.endswith("ProvenPerm") or what.endswith("ProvenSourceNode")) and "elem" in names:
                return self.ty(r[2][names.index("elem")], depth + 1)
            if what.endswith("ProvenContains") and "pai" in names:
                return ("pc", self.ty(r[2][names.index("pai")], depth + 1))
            if what.endswith("Option::Some") and r[2]:
                return ("opt", self.ty(r[2][0], depth + 1))
            return self.unk()
        if k == "index":
            return self.unk()
        if k != "call":
            return self.unk()
        name, owner, args, site = r[1], r[2] or "", r[3], r[4]
        A = lambda i: self.ty(args[i], depth + 1) if i < len(args) else self.unk()
        egraph_recv = args and strip_role(args[0]) in (("param", "self"), ("param", "eg"), ("param", "egraph")) or "EGraph" in owner
        if name == "inverse":
            m = A(0)
            return ("map", m[2], m[1]) if m[0] == "map" else self.unk()
        if name in ("compose", "compose_partial", "compose_fresh") and len(args) == 2:
            f, g = A(0), A(1)
            if f[0] == "map" and g[0] == "map":
                self._at(site, lambda: self.unify(f[2], g[1], "%s: codomain of the receiver vs. domain of the argument" % name))
                return ("map", f[1], g[2])
            if f[0] == "map":
                return ("map", f[1], Var())
            if g[0] == "map":
                return ("map", Var(), g[2])
            return self.unk()
        if name == "identity" and "SlotMap" in owner and args:
            s = A(0)
            if s[0] == "set":
                return ("map", s[1], s[1])
            return self.fresh_map()
        if name == "bijection_from_fresh_to" and args:
            s = A(0)
            return ("map", Var(), s[1]) if s[0] == "set" else self.fresh_map()
        if name in ("keys", "keys_vec") and args:
            m = A(0)
            return ("set", m[1]) if m[0] == "map" else self.unk()
        if name in ("values", "values_vec") and args:
            m = A(0)
            return ("set", m[2]) if m[0] == "map" else self.unk()
        if name == "slots":
            if len(args) == 2 and egraph_recv:
                return ("set", self.S(self.key_of_idrole(args[1])))
            t = A(0)
            if t[0] == "app":
                return ("set", t[2])
            if t[0] == "node":
                return ("set", t[1])
            return ("set", Var())
        if name == "syn_slots" and len(args) == 2:
            return ("set", self.S(self.key_of_idrole(args[1])))
        if name in ("bitand", "bitor", "sub", "bitxor") and len(args) == 2:
            a, b = A(0), A(1)
            if a[0] == "set" and b[0] == "set":
                self._at(site, lambda: self.unify(a[1], b[1], "set operation %s on slot sets of different spaces" % name))
                return a
            return a if a[0] == "set" else (b if b[0] == "set" else self.unk())
        if name in ("filter", "collect", "retain", "cloned", "copied", "iter", "into_iter", "to_owned", "clone") and args:
            return A(0)
        if name == "index" and len(args) == 2:
            m, x = A(0), A(1)
            if m[0] == "map":
                if x[0] == "slot":
                    self._at(site, lambda: self.unify(m[1], x[1], "indexing a slot map with a slot of another space"))
                return ("slot", m[2])
            return self.unk()
        if name == "get" and len(args) == 2:
            m, x = A(0), A(1)
            if m[0] == "map":
                if x[0] == "slot":
                    self._at(site, lambda: self.unify(m[1], x[1], "get() on a slot map with a slot of another space"))
                return ("opt", ("slot", m[2]))
            return self.unk()
        if name in ("mk_sem_applied_id", "mk_syn_applied_id") and len(args) == 3:
            key = self.key_of_idrole(args[1])
            m = A(2)
            if m[0] == "map":
                self._at(site, lambda: self.unify(m[1], self.S(key), "%s(id, m): the keys of m must be the slots of that class" % name))
                return ("app", key, m[2])
            return ("app", key, Var())
        if name in ("mk_sem_identity_applied_id", "mk_syn_identity_applied_id", "mk_identity_applied_id") and len(args) == 2:
            key = self.key_of_idrole(args[1])
            return ("app", key, self.S(key))
        if name == "new" and owner.endswith("AppliedId") and len(args) == 2:
            key = self.key_of_idrole(args[0])
            m = A(1)
            return ("app", key, m[2] if m[0] == "map" else Var())
        if name in ("apply_slotmap", "apply_slotmap_partial", "apply_slotmap_fresh") and len(args) == 2:
            a, m = A(0), A(1)
            if a[0] == "app" and m[0] == "map":
                self._at(site, lambda: self.unify(a[2], m[1], "%s: the renaming must be defined on the invocation's slots" % name))
                return ("app", a[1], m[2])
            if a[0] == "node" and m[0] == "map":
                self._at(site, lambda: self.unify(a[1], m[1], "%s: the renaming must be defined on the node's slots" % name))
                return ("node", m[2])
            if a[0] == "app":
                return ("app", a[1], Var())
            if a[0] == "node":
                return ("node", Var())
            return self.unk()
        if name in ("find_applied_id", "proven_find_applied_id", "proven_proven_find_applied_id") and len(args) == 2:
            a = A(1)
            return ("app", self.kfind("find@%d:%s" % (site, role_str(args[1], 8))), a[2] if a[0] == "app" else Var())
        if name in ("synify_app_id", "semify_app_id") and len(args) == 2:
            return A(1)
        if name in ("find_enode", "synify_enode", "semify_enode", "refresh_internals", "refresh_private", "class_nf") and len(args) >= 2:
            t = A(1)
            return t if t[0] == "node" else ("node", Var())
        if name in ("unionfind_get", "proven_unionfind_get") and len(args) == 2:
            return ("app", self.kfind("uf@%d" % site), self.S(self.key_of_idrole(args[1])))
        if name in ("get_syn_node",) and len(args) == 2:
            a = A(1)
            return ("node", a[2]) if a[0] == "app" else ("node", Var())
        if name in ("shape", "proven_shape", "weak_shape"):
            n = A(1) if name != "weak_shape" else A(0)
            sh = Var("shape@%d" % site)      # equal shapes share one space; never a source of complaints
            return ("tuple", [("node", sh), ("map", sh, n[1] if n[0] == "node" else Var())])
        if name in ("lookup",) and len(args) == 2 and egraph_recv:
            n = A(1)
            return ("opt", ("app", self.kfind("lookup@%d" % site), n[1] if n[0] == "node" else Var()))
        if name == "lookup_internal" and len(args) == 2:
            t = A(1)
            cod = Var()
            if t[0] == "tuple" and len(t[1]) == 2 and t[1][1][0] == "map":
                cod = t[1][1][2]
            return ("opt", ("app", self.kfind("lookup@%d" % site), cod))
        if name in ("unwrap", "expect", "unwrap_or_default") and args:
            t = A(0)
            return t[1] if t[0] == "opt" else t
        if name == "pc_congruence" and len(args) == 3:
            x = Var()
            ka = self._pc_key(A(1), "pcA@%d" % site)
            kb = self._pc_key(A(2), "pcB@%d" % site)
            return ("tuple", [("app", ka, x), ("app", kb, x), self.unk()])
        if name in ("pc_from_src_id", "pc_from_shape", "pc_find", "refl_pc", "chain_pc_map", "chain_pc_eq"):
            if name in ("pc_find", "chain_pc_map", "chain_pc_eq") and len(args) >= 2:
                t = A(1)
                if t[0] == "pc" and name != "pc_find":
                    return t
            return ("pc", ("app", self.kfind("pc@%d" % site), Var()))
        if name == "target_id" and args:
            t = A(0)
            if t[0] == "pc" and t[1][0] == "app":
                return ("id", t[1][1])
            return self.unk()
        if name == "chain_pai_pp" and len(args) == 3:
            return A(1)
        if name == "to_slotmap" and args:
            return A(0)
        return self.unk()

    def _pc_key(self, t, default):
        if t[0] == "pc" and t[1][0] == "app":
            return t[1][1]
        return self.kfind(default)

    def _at(self, site, fn):
        old = self.cur_site
        self.cur_site = site
        self.sites += 1
        try:
            fn()
        finally:
            self.cur_site = old

    # ---- checks that are not part of an expression's type
    def check_statement_sites(self):
        for b in self.body.all_bodies():
            for c in b.calls:
                if not c.callee or b.blocks[c.bb]["cleanup"]:
                    continue
                name = c.callee.name
                r = ("call", name, c.callee.impl_self or c.callee.trait or "", [b.role_of_operand(a) for a in c.args], c.bb)
                self.cur_site = c.bb
                if name in ("compose", "compose_partial", "compose_fresh", "mk_sem_applied_id", "mk_syn_applied_id", "apply_slotmap", "apply_slotmap_partial", "apply_slotmap_fresh", "index", "get", "bitand", "bitor", "sub"):
                    self.ty(r)
                elif name in ("contains", "add", "proven_contains") and c.callee.is_(name, "group::Group") and len(c.args) == 2:
                    recv = b.role_of_operand(c.args[0])
                    key = None
                    for x in mir.role_walk(recv):
                        if isinstance(x, tuple) and x[0] == "call" and x[1] in ("get_mut", "index", "index_mut", "get") and len(x[3]) == 2 and mir.role_mentions_field(x[3][0], "classes"):
                            key = self.key_of_idrole(x[3][1])
                    p = self.ty(b.role_of_operand(c.args[1]))
                    if key is not None and p[0] == "map":
                        sp = self.S(key)
                        self._at(c.bb, lambda: (self.unify(p[1], sp, "Group::%s: the permutation must act on the slots of that class (keys)" % name),
                                                self.unify(p[2], sp, "Group::%s: the permutation must act on the slots of that class (values)" % name)))
                elif c.callee.target in self.inserters and len(c.args) >= 3:
                    # raw_add role: (self, id, (sh, bij), ..): bij maps the shape's slots into the slots of class id
                    key = self.key_of_idrole(b.role_of_operand(c.args[1]))
                    t = self.ty(b.role_of_operand(c.args[2]))
                    if t[0] == "tuple" and len(t[1]) == 2 and t[1][1][0] == "map":
                        m = t[1][1]
                        self._at(c.bb, lambda: self.unify(m[2], self.S(key), "index insertion (class id, (shape, bij)): bij must map into the slots of that class"))
                elif name == "unionfind_set" and len(c.args) == 3:
                    key = self.key_of_idrole(b.role_of_operand(c.args[1]))
                    a = self.ty(b.role_of_operand(c.args[2]))
                    if a[0] == "app":
                        self._at(c.bb, lambda: self.unify(a[2], self.S(key), "unionfind_set(i, entry): the entry must map the leader's slots into the slots of i"))
        return self.errors


def check_function(crate, body, inserters=()):
    sc = Scope(crate, body)
    sc.inserters = set(inserters)
    try:
        errs = sc.check_statement_sites()
    except RecursionError:
        return [], (0, 0)
    # de-duplicate by (site, message)
    seen = set()
    out = []
    for site, msg in errs:
        if (site, msg) not in seen:
            seen.add((site, msg))
            out.append((site, msg))
    return out, (sc.sites, sc.decisive)

"""E2: analysis library over sefacts JSON.

Body   : CFG (normal edges; unwind edges kept apart), switch-edge aware reachability
         ("every path from A to B passes through one of S"), operand roles, value
         dependence (flow-insensitive, over-approximating, closure aware).
Crate  : bodies by id, closures attached to their root function, call graph,
         field writer sets, helper queries.
"""
import json
import re
from collections import defaultdict, deque

TRANSPARENT_CALLS = {
    "clone", "deref", "deref_mut", "borrow", "as_ref", "as_mut", "to_owned", "into", "from",
    "into_iter", "iter", "as_slice", "as_str", "to_string", "unwrap", "expect", "cloned", "copied",
    "to_vec", "as_mut_slice", "by_ref", "unwrap_or_default",
}

EXIT = "EXIT"


def place_base(pl):
    return pl["l"]


def place_fields(pl):
    """[(adt, field)] of the field projections of a place, outermost first."""
    return [(p["adt"], p["f"]) for p in pl["p"] if isinstance(p, dict) and "f" in p]


def place_has_field(pl, adt, field):
    for p in pl["p"]:
        if isinstance(p, dict) and p.get("f") == field and p.get("adt") == adt:
            return True
    return False


def place_has_deref(pl):
    return any(p == "*" for p in pl["p"])


def op_place(op):
    if op is None:
        return None
    if op["k"] in ("copy", "move"):
        return op["pl"]
    return None


class Callee:
    __slots__ = ("fn", "name", "res", "local", "res_local", "impl_self", "trait", "impl_trait", "gargs", "dkind", "raw")

    def __init__(self, op):
        self.raw = op
        self.fn = op.get("fn")
        self.name = op.get("name")
        self.res = op.get("res")
        self.local = op.get("local", False)
        self.res_local = op.get("res_local", False)
        self.impl_self = op.get("impl_self")
        self.trait = op.get("trait")
        self.impl_trait = op.get("impl_trait")
        self.gargs = op.get("gargs", [])
        self.dkind = op.get("dkind")

    @property
    def target(self):
        """best known def path of the function actually called"""
        return self.res or self.fn

    def is_(self, name, owner=None):
        if self.name != name:
            return False
        if owner is None:
            return True
        t = self.target or ""
        f = self.fn or ""
        s = self.impl_self or ""
        g0 = self.gargs[0] if self.gargs else ""
        return owner in t or owner in f or owner in s or owner in g0 or owner in (self.trait or "")

    def __repr__(self):
        return "Callee(%s)" % (self.target,)


class CallSite:
    __slots__ = ("body", "bb", "term", "callee", "args", "dest", "target", "line", "mac", "indirect")

    def __init__(self, body, bb, term):
        self.body = body
        self.bb = bb
        self.term = term
        f = term["func"]
        if f["k"] == "const" and "fn" in f:
            self.callee = Callee(f)
            self.indirect = False
        else:
            self.callee = None
            self.indirect = True
        self.args = term["args"]
        self.dest = term.get("dest")
        self.target = term.get("target")
        self.line = term.get("line")
        self.mac = term.get("mac", [])

    @property
    def name(self):
        return self.callee.name if self.callee else None

    def where(self):
        return "%s:%s" % (self.body.file, self.line)

    def __repr__(self):
        return "<call %s in %s bb%d line %s>" % (self.callee.target if self.callee else "indirect", self.body.id, self.bb, self.line)


def _prune_literal_switches(blocks):
    """`if false && cond {..}` / `if true || cond {..}`: at mir-opt-level 0 the short-circuit is a switch on the LITERAL.  Such a
    switch is replaced by a goto to its one feasible arm and what becomes unreachable is marked dead (rules skip cleanup / dead
    blocks): a comparison that is still in the text but can never be evaluated does not count as a guard.  Named constants
    (`CHECKS`) are not literals and stay symbolic."""
    changed = False
    if not any(b_["term"]["k"] == "switch" and not b_["cleanup"] for b_ in blocks):
        return
    defs = {}
    for b_ in blocks:
        for st in b_["stmts"]:
            if st["k"] == "assign":
                defs.setdefault(st["lhs"]["l"], []).append(st if not st["lhs"]["p"] else None)
        t_ = b_["term"]
        if t_["k"] == "call" and "dest" in t_:
            defs.setdefault(t_["dest"]["l"], []).append(None)
    for blk in blocks:
        t = blk["term"]
        if blk["cleanup"] or t["k"] != "switch":
            continue
        d = t["discr"]
        if d.get("k") in ("move", "copy") and not d["pl"]["p"]:
            # `_t = const false; switchInt(move _t)`
            ds = defs.get(d["pl"]["l"], [])
            if len(ds) == 1 and ds[0] is not None and ds[0]["rv"]["k"] == "use" and ds[0]["rv"]["op"].get("k") == "const":
                d = ds[0]["rv"]["op"]
        if d.get("k") != "const" or "int" not in d or "cdef" in d or "named_const" in d or d.get("ty") not in ("bool",):
            continue
        hit = [c[1] for c in t["cases"] if c[0] == str(d["int"])]
        tgt = hit[0] if hit else t["otherwise"]
        blk["term"] = {"k": "goto", "target": tgt, "line": t.get("line"), "pruned_switch": True, "literal": True}
        changed = True
    if not changed:
        return
    seen = set()
    work = [0]
    while work:
        i = work.pop()
        if i in seen or i >= len(blocks):
            continue
        seen.add(i)
        t = blocks[i]["term"]
        k = t["k"]
        succ = []
        if k == "goto":
            succ = [t["target"]]
        elif k == "switch":
            succ = [c[1] for c in t["cases"]] + [t["otherwise"]]
        elif k in ("drop", "assert", "call"):
            succ = [x for x in (t.get("target"), t.get("unwind")) if isinstance(x, int)]
        elif k in ("yield", "falseedge", "falseunwind", "inlineasm"):
            succ = [x for x in (t.get("target"), t.get("unwind")) if isinstance(x, int)]
        work.extend(succ)
    for i, blk in enumerate(blocks):
        if i not in seen and not blk["cleanup"]:
            blk["cleanup"] = True
            blk["dead"] = True


class Body:
    def __init__(self, crate, j):
        self.crate = crate
        self.j = j
        self.id = j["id"]
        self.name = j.get("name")
        self.kind = j["kind"]
        self.file = j.get("file")
        self.line = j.get("line")
        self.vis = j.get("vis")
        self.reachable = j.get("reachable", False)
        self.impl_self = j.get("impl_self")
        self.impl_trait = j.get("impl_trait")
        self.auto_derived = j.get("auto_derived", False)
        self.from_expansion = j.get("from_expansion", False)
        self.mac = j.get("mac", [])
        self.root = j.get("root")
        self.argc = j["argc"]
        self.locals = j["locals"]
        self.blocks = j["blocks"]
        self.vars = j["vars"]
        _prune_literal_switches(self.blocks)
        self.closures = []     # direct and nested closure bodies (filled by Crate)
        self.parent_body = None
        self.creation = None   # (parent Body, bb, stmt index, ops) for closures
        self._cache = {}
        self.var_names = {}
        for v in self.vars:
            if not v["pl"]["p"]:
                self.var_names.setdefault(v["pl"]["l"], v["name"])
        self.calls = []
        for i, b in enumerate(self.blocks):
            t = b["term"]
            if t["k"] in ("call", "tailcall"):
                self.calls.append(CallSite(self, i, t))
        self.call_at = {c.bb: c for c in self.calls}

    def __repr__(self):
        return "<Body %s>" % self.id

    # ------------------------------------------------------------------ naming
    def local_name(self, l):
        if l == 0:
            return "_ret"
        return self.var_names.get(l, "_%d" % l)

    def param_index(self, name):
        for l in range(1, self.argc + 1):
            if self.var_names.get(l) == name:
                return l
        return None

    def local_ty(self, l):
        return self.locals[l]["ty"]

    # ------------------------------------------------------------------ CFG
    def succ(self, b):
        t = self.blocks[b]["term"]
        k = t["k"]
        if k == "goto":
            return [t["target"]]
        if k == "switch":
            out = [c[1] for c in t["cases"]] + [t["otherwise"]]
            return out
        if k in ("drop", "assert"):
            return [t["target"]]
        if k == "call":
            return [t["target"]] if t["target"] is not None else []
        return []

    def is_return(self, b):
        return self.blocks[b]["term"]["k"] == "return"

    def is_diverging(self, b):
        t = self.blocks[b]["term"]
        k = t["k"]
        if k in ("unreachable", "resume", "terminate", "tailcall"):
            return True
        if k == "call" and t["target"] is None:
            return True
        return False

    def xgraph(self):
        """expanded graph: block nodes are ints; every switch edge is a node ('e', bb, label).
        label is the case value string or 'otherwise'."""
        if "xg" in self._cache:
            return self._cache["xg"]
        g = defaultdict(list)
        for i, b in enumerate(self.blocks):
            if b["cleanup"]:
                continue
            t = b["term"]
            if t["k"] == "switch":
                for val, tgt in t["cases"]:
                    e = ("e", i, val)
                    g[i].append(e)
                    g[e].append(tgt)
                e = ("e", i, "otherwise")
                g[i].append(e)
                g[e].append(t["otherwise"])
            else:
                for s in self.succ(i):
                    g[i].append(s)
                if i not in g:
                    g[i] = []
        self._cache["xg"] = g
        return g

    def reach(self, starts, avoid=(), graph=None):
        """nodes reachable from starts in the expanded graph without entering `avoid` nodes
        (a start node that is in avoid is not expanded)."""
        g = graph or self.xgraph()
        avoid = set(avoid)
        seen = set()
        dq = deque(s for s in starts if s not in avoid)
        seen.update(dq)
        while dq:
            n = dq.popleft()
            for s in g.get(n, ()):
                if s in avoid or s in seen:
                    continue
                seen.add(s)
                dq.append(s)
        return seen

    def return_blocks(self):
        return [i for i, b in enumerate(self.blocks) if not b["cleanup"] and b["term"]["k"] == "return"]

    def live_blocks(self):
        """non-cleanup blocks reachable from entry"""
        if "live" not in self._cache:
            self._cache["live"] = {n for n in self.reach([0]) if isinstance(n, int)}
        return self._cache["live"]

    def must_pass(self, frm, to, through):
        """True iff every path frm -> (any of to) passes through a node of `through`.
        frm: list of start nodes (the start node itself counts as passed if in through)."""
        r = self.reach(frm, avoid=through)
        return not any(t in r for t in to)

    def dominated_by(self, node, through):
        """every path entry -> node passes through one of `through`"""
        return self.must_pass([0], [node], through)

    def returns_reachable_from(self, frm, avoid=()):
        r = self.reach(frm, avoid=avoid)
        return [b for b in self.return_blocks() if b in r]

    def after(self, bb):
        """successor nodes of block bb in the expanded graph (i.e. 'after the call at bb')"""
        return list(self.xgraph().get(bb, ()))

    # dominators on the expanded graph (sets; bodies are small)
    def dominators(self):
        if "dom" in self._cache:
            return self._cache["dom"]
        g = self.xgraph()
        nodes = list(self.reach([0]))
        preds = defaultdict(list)
        for n in nodes:
            for s in g.get(n, ()):
                preds[s].append(n)
        allset = set(nodes)
        dom = {n: set(allset) for n in nodes}
        dom[0] = {0}
        changed = True
        order = self._rpo(g, 0)
        while changed:
            changed = False
            for n in order:
                if n == 0:
                    continue
                ps = [p for p in preds[n] if p in dom]
                new = set.intersection(*(dom[p] for p in ps)) if ps else set()
                new = new | {n}
                if new != dom[n]:
                    dom[n] = new
                    changed = True
        self._cache["dom"] = dom
        return dom

    def _rpo(self, g, start):
        seen = set()
        order = []
        stack = [(start, iter(g.get(start, ())))]
        seen.add(start)
        while stack:
            n, it = stack[-1]
            adv = False
            for s in it:
                if s not in seen:
                    seen.add(s)
                    stack.append((s, iter(g.get(s, ()))))
                    adv = True
                    break
            if not adv:
                order.append(n)
                stack.pop()
        order.reverse()
        return order

    def postdominators(self, exits="all"):
        """postdominator sets on the expanded graph with a virtual EXIT.
        exits='all': return and diverging blocks lead to EXIT; 'return': only return blocks
        (nodes that cannot reach a return are dropped)."""
        key = "pdom-" + exits
        if key in self._cache:
            return self._cache[key]
        g = self.xgraph()
        nodes = set(self.reach([0]))
        rg = defaultdict(list)
        for n in nodes:
            for s in g.get(n, ()):
                if s in nodes:
                    rg[s].append(n)
        for n in nodes:
            if isinstance(n, int):
                if self.is_return(n) or (exits == "all" and self.is_diverging(n)):
                    rg[EXIT].append(n)
        # nodes that can reach EXIT
        seen = {EXIT}
        dq = deque([EXIT])
        while dq:
            x = dq.popleft()
            for p in rg.get(x, ()):
                if p not in seen:
                    seen.add(p)
                    dq.append(p)
        live = seen
        succs = defaultdict(list)
        for s, ps in rg.items():
            for p in ps:
                if p in live and s in live:
                    succs[p].append(s)
        pd = {n: set(live) for n in live}
        pd[EXIT] = {EXIT}
        order = self._rpo(rg, EXIT)
        changed = True
        while changed:
            changed = False
            for n in order:
                if n == EXIT or n not in live:
                    continue
                ss = [s for s in succs[n]]
                new = set.intersection(*(pd[s] for s in ss)) if ss else set()
                new = new | {n}
                if new != pd[n]:
                    pd[n] = new
                    changed = True
        self._cache[key] = pd
        return pd

    def control_deps(self, bb):
        """switch edges ('e', S, label) the block is control dependent on (panic exits count
        as exits, so an assert guards what follows it).  Transitive closure is NOT taken."""
        pd = self.postdominators("all")
        out = set()
        if bb not in pd:
            return out
        g = self.xgraph()
        for n in pd:
            if isinstance(n, tuple) and n[0] == "e":
                s = n[1]
                if bb in pd.get(n, ()) and not (bb in pd.get(s, ()) and bb != s):
                    out.add(n)
        return out

    def control_deps_closure(self, bb):
        seen = set()
        work = [bb]
        out = set()
        while work:
            b = work.pop()
            if b in seen:
                continue
            seen.add(b)
            for e in self.control_deps(b):
                if e not in out:
                    out.add(e)
                    work.append(e[1])
        return out

    # ------------------------------------------------------------------ definitions
    def defs(self):
        """local -> list of definitions.  A definition is a dict:
        {'bb','i'(stmt index or None for call dest),'kind':'assign'|'call','full':bool,'rv' or 'call'}"""
        if "defs" in self._cache:
            return self._cache["defs"]
        d = defaultdict(list)
        for bi, b in enumerate(self.blocks):
            if b["cleanup"]:
                continue
            for si, s in enumerate(b["stmts"]):
                if s["k"] == "assign":
                    l = s["lhs"]["l"]
                    d[l].append({"bb": bi, "i": si, "kind": "assign", "full": not s["lhs"]["p"], "rv": s["rv"], "lhs": s["lhs"], "line": s.get("line")})
            t = b["term"]
            if t["k"] == "call":
                l = t["dest"]["l"]
                d[l].append({"bb": bi, "i": None, "kind": "call", "full": not t["dest"]["p"], "call": self.call_at[bi], "lhs": t["dest"], "line": t.get("line")})
        self._cache["defs"] = d
        return d

    # ------------------------------------------------------------------ roles
    def role_of_operand(self, op, depth=0, seen=None):
        """symbolic description of where an operand's value comes from.
        ('param', name) | ('field', role, name) | ('call', name, owner, [roles], site_bb) |
        ('const', text) | ('phi', [roles]) | ('upvar', i, role-in-parent) | ('index', role) |
        ('agg', what, [roles]) | ('bin', op, a, b) | ('ref', role) | ('local', n) | ('discr', role)"""
        if op["k"] == "const":
            if "fn" in op:
                return ("fnconst", op["fn"])
            if "pvi" in op:
                # promoted `&Enum::UnitVariant`: the same role as the aggregate written out
                return ("agg", "%s::%s" % (op["padt"], op["pvariant"]), [], [])
            return ("const", op.get("text"))
        pl = op_place(op)
        if pl is None:
            return ("other", op.get("text"))
        return self.role_of_place(pl, depth, seen)

    def role_of_place(self, pl, depth=0, seen=None):
        base = self.role_of_local(pl["l"], depth, seen)
        for p in pl["p"]:
            if p == "*":
                continue
            if isinstance(p, dict):
                if "f" in p:
                    # a closure's captured variable
                    if p["f"].startswith("upvar#") and self.kind == "Closure" and base == ("param", "_closure"):
                        i = int(p["f"].split("#")[1])
                        base = self.upvar_role(i, depth, seen)
                    else:
                        sb = base
                        if isinstance(sb, tuple) and sb[0] == "agg" and len(sb) > 3 and p["f"] in sb[3] and sb[1] != "repeat":
                            base = sb[2][sb[3].index(p["f"])]
                        else:
                            base = ("field", base, p["f"])
                elif "idx" in p or "cidx" in p:
                    base = ("index", base)
                elif "dc" in p:
                    # downcast of a value built from known enum constructors: pick the constructor of that variant
                    sel = None
                    dc_ = p["dc"]
                    if dc_ == "Continue" and isinstance(base, tuple) and base[0] == "call" and base[1] == "branch" and base[3]:
                        # `x?`: (Try::branch(x) as Continue).0 is (x as Some).0 / (x as Ok).0
                        base = base[3][0]
                        while isinstance(base, tuple) and base[0] == "call" and base[1] in TRANSPARENT_CALLS and base[3]:
                            base = base[3][0]
                        p = dict(p, dc="Some")
                    cands = base[1] if isinstance(base, tuple) and base[0] == "phi" else [base]
                    # (`None?` / `Err(e)?` propagated by from_residual is never the Some / Ok / Continue that is being projected)
                    if p["dc"] in ("Some", "Ok", "Continue"):
                        cands = [x for x in cands if not (isinstance(x, tuple) and x[0] == "call" and x[1] == "from_residual")]
                    aggs = [x for x in cands if isinstance(x, tuple) and x[0] == "agg" and isinstance(x[1], str)]
                    if aggs and len(aggs) == len(cands):
                        m = [x for x in aggs if x[1].split("::")[-1] == p["dc"] or (dc_ == "Continue" and x[1].split("::")[-1] in ("Some", "Ok"))]
                        if len(m) == 1:
                            sel = m[0]
                    base = sel if sel is not None else (("variant", ("call", "branch", "", [base], -1), "Continue") if dc_ == "Continue" and p["dc"] == "Some" else ("variant", base, p["dc"]))
                elif "sub" in p:
                    base = ("subslice", base)
        return base

    def upvar_role(self, i, depth=0, seen=None):
        if self.creation is None:
            return ("upvar", i)
        parent, bb, si, ops = self.creation
        if i >= len(ops):
            return ("upvar", i)
        return parent.role_of_operand(ops[i], depth + 1, None)

    def role_of_local(self, l, depth=0, seen=None):
        if depth > 40:
            return ("deep", l)
        seen = seen or frozenset()
        if l in seen:
            return ("cycle", self.local_name(l))
        if 1 <= l <= self.argc:
            if self.kind == "Closure" and l == 1:
                return ("param", "_closure")
            # a parameter that is re-assigned keeps its param role (rare)
            return ("param", self.var_names.get(l, "_%d" % l))
        ds = self.defs().get(l, [])
        full = [d for d in ds if d["full"]]
        if not full:
            if ds:
                return ("partial", self.local_name(l))
            return ("undef", self.local_name(l))
        seen2 = seen | {l}
        roles = []
        for d in full:
            if d["kind"] == "call":
                c = d["call"]
                if c.callee is None:
                    fr = self.role_of_operand(c.term["func"], depth + 1, seen2)
                    roles.append(("icall", fr, [self.role_of_operand(a, depth + 1, seen2) for a in c.args], c.bb))
                else:
                    roles.append(("call", c.callee.name, c.callee.impl_self or c.callee.trait or (c.callee.gargs[0] if c.callee.gargs and c.callee.dkind == "AssocFn" else ""),
                                  [self.role_of_operand(a, depth + 1, seen2) for a in c.args], c.bb))
            else:
                roles.append(self.role_of_rvalue(d["rv"], depth + 1, seen2))
        # de-duplicate
        uniq = []
        for r in roles:
            if r not in uniq:
                uniq.append(r)
        if len(uniq) == 1:
            return uniq[0]
        return ("phi", uniq)

    def role_of_rvalue(self, rv, depth=0, seen=None):
        k = rv["k"]
        if k == "use":
            return self.role_of_operand(rv["op"], depth, seen)
        if k == "ref":
            return self.role_of_place(rv["pl"], depth, seen)
        if k == "rawptr":
            return self.role_of_place(rv["pl"], depth, seen)
        if k == "cast":
            return self.role_of_operand(rv["op"], depth, seen)
        if k == "bin":
            return ("bin", rv["op"], self.role_of_operand(rv["a"], depth, seen), self.role_of_operand(rv["b"], depth, seen))
        if k == "un":
            return ("un", rv["op"], self.role_of_operand(rv["a"], depth, seen))
        if k == "discr":
            return ("discr", self.role_of_place(rv["pl"], depth, seen))
        if k == "agg":
            what = rv.get("adt") or rv.get("def") or rv.get("agg")
            if rv.get("agg") == "adt":
                what = "%s::%s" % (rv["adt"], rv["variant"])
            ops = [self.role_of_operand(o, depth, seen) for o in rv["ops"]]
            if rv.get("agg") == "tuple":
                names = [str(i) for i in range(len(ops))]
            elif rv.get("agg") == "adt":
                names = list(rv.get("fields", []))
            else:
                names = []
            return ("agg", what, ops, names)
        if k == "repeat":
            return ("agg", "repeat", [self.role_of_operand(rv["op"], depth, seen)])
        if k == "tlref":
            return ("tls", rv["def"])
        return ("other", rv.get("text"))

    # ------------------------------------------------------------------ convenience
    def calls_named(self, name, owner=None):
        return [c for c in self.calls if c.callee and c.callee.is_(name, owner) and not self.blocks[c.bb]["cleanup"]]

    def all_bodies(self):
        """this body and all closures (transitively) created inside it"""
        out = [self]
        for c in self.closures:
            out.extend(c.all_bodies())
        return out

    def all_calls(self):
        out = []
        for b in self.all_bodies():
            out.extend(c for c in b.calls if not b.blocks[c.bb]["cleanup"])
        return out

    def statements(self):
        for bi, b in enumerate(self.blocks):
            if b["cleanup"]:
                continue
            for si, s in enumerate(b["stmts"]):
                yield bi, si, s

    def switch_blocks(self):
        return [i for i, b in enumerate(self.blocks) if not b["cleanup"] and b["term"]["k"] == "switch"]

    def ghost_blocks(self, const_name="CHECKS"):
        """blocks that execute only when `const CHECKS` is true: dominated by the non-zero edge
        of a switch whose discriminant is a read of that const."""
        key = "ghost-" + const_name
        if key in self._cache:
            return self._cache[key]
        edges = []
        for sb in self.switch_blocks():
            t = self.blocks[sb]["term"]
            r = self.role_of_operand(t["discr"])
            if r[0] == "const" and r[1] == const_name:
                # true edge: the one that is not case "0"
                for val, tgt in t["cases"]:
                    if val != "0":
                        edges.append(("e", sb, val))
                if any(val == "0" for val, _ in t["cases"]):
                    edges.append(("e", sb, "otherwise"))
        ghost = set()
        if edges:
            allnodes = self.live_blocks()
            nog = self.reach([0], avoid=edges)
            ghost = {b for b in allnodes if b not in nog}
        self._cache[key] = (ghost, edges)
        return ghost, edges


def role_str(r, maxdepth=8):
    if not isinstance(r, tuple):
        return str(r)
    if maxdepth <= 0:
        return "…"
    k = r[0]
    if k == "param":
        return r[1]
    if k == "field":
        return "%s.%s" % (role_str(r[1], maxdepth - 1), r[2])
    if k == "call":
        return "%s(%s)" % (r[1], ", ".join(role_str(a, maxdepth - 1) for a in r[3]))
    if k == "icall":
        return "(%s)(%s)" % (role_str(r[1], maxdepth - 1), ", ".join(role_str(a, maxdepth - 1) for a in r[2]))
    if k == "const":
        return "const %s" % r[1]
    if k == "phi":
        return "phi[%s]" % " | ".join(role_str(a, maxdepth - 1) for a in r[1])
    if k == "index":
        return "%s[*]" % role_str(r[1], maxdepth - 1)
    if k == "agg":
        return "%s{%s}" % (r[1], ", ".join(role_str(a, maxdepth - 1) for a in r[2]))
    if k == "bin":
        return "(%s %s %s)" % (role_str(r[2], maxdepth - 1), r[1], role_str(r[3], maxdepth - 1))
    if k == "un":
        return "%s(%s)" % (r[1], role_str(r[2], maxdepth - 1))
    if k == "variant":
        return "%s as %s" % (role_str(r[1], maxdepth - 1), r[2])
    if k == "discr":
        return "discr(%s)" % role_str(r[1], maxdepth - 1)
    return "%s:%s" % (k, ",".join(str(x) for x in r[1:]))


def strip_role(r):
    """remove transparent wrappers (clone, deref, borrow, unwrap, iter ...) from the top of a role"""
    while isinstance(r, tuple):
        if r[0] == "call" and r[1] in TRANSPARENT_CALLS and r[3]:
            r = r[3][0]
            continue
        break
    return r


def role_walk(r):
    """all sub-roles, pre-order"""
    yield r
    if not isinstance(r, tuple):
        return
    k = r[0]
    if k == "field" or k == "index" or k == "variant" or k == "discr" or k == "subslice":
        yield from role_walk(r[1])
    elif k == "call":
        for a in r[3]:
            yield from role_walk(a)
    elif k == "icall":
        yield from role_walk(r[1])
        for a in r[2]:
            yield from role_walk(a)
    elif k == "phi":
        for a in r[1]:
            yield from role_walk(a)
    elif k == "agg":
        for a in r[2]:
            yield from role_walk(a)
    elif k == "bin":
        yield from role_walk(r[2])
        yield from role_walk(r[3])
    elif k == "un":
        yield from role_walk(r[2])


def role_mentions_param(r, name):
    return any(x == ("param", name) for x in role_walk(r))


def role_mentions_field(r, field):
    return any(isinstance(x, tuple) and x[0] == "field" and x[2] == field for x in role_walk(r))


def role_mentions_call(r, name, owner=None):
    for x in role_walk(r):
        if isinstance(x, tuple) and x[0] == "call" and x[1] == name:
            if owner is None or owner in (x[2] or ""):
                return True
    return False


def role_calls(r):
    return [x for x in role_walk(r) if isinstance(x, tuple) and x[0] == "call"]


_ANCHORS = None


def _anchors():
    global _ANCHORS
    if _ANCHORS is None:
        import json, os
        p = os.path.join(os.path.dirname(os.path.dirname(os.path.abspath(__file__))), "anchors.json")
        try:
            _ANCHORS = json.load(open(p))
        except Exception:
            _ANCHORS = {}
    return _ANCHORS


_ANCHOR_CALLS = None


def _anchor_calls():
    global _ANCHOR_CALLS
    if _ANCHOR_CALLS is None:
        import os
        p = os.path.join(os.path.dirname(os.path.dirname(os.path.abspath(__file__))), "anchors_calls.json")
        try:
            _ANCHOR_CALLS = json.load(open(p))
        except Exception:
            _ANCHOR_CALLS = {}
    return _ANCHOR_CALLS


_ANCHOR_ALT = None


def _anchor_alt():
    global _ANCHOR_ALT
    if _ANCHOR_ALT is None:
        import os
        p = os.path.join(os.path.dirname(os.path.dirname(os.path.abspath(__file__))), "anchors_alt.json")
        try:
            _ANCHOR_ALT = json.load(open(p))
        except Exception:
            _ANCHOR_ALT = {}
    return _ANCHOR_ALT


_ANCHOR_PARAMS = None


def _anchor_params():
    global _ANCHOR_PARAMS
    if _ANCHOR_PARAMS is None:
        import os
        p = os.path.join(os.path.dirname(os.path.dirname(os.path.abspath(__file__))), "anchors_params.json")
        try:
            _ANCHOR_PARAMS = json.load(open(p))
        except Exception:
            _ANCHOR_PARAMS = {}
    return _ANCHOR_PARAMS


_ANCHOR_ADTS = None


def _anchor_adts():
    global _ANCHOR_ADTS
    if _ANCHOR_ADTS is None:
        import os
        p = os.path.join(os.path.dirname(os.path.dirname(os.path.abspath(__file__))), "anchors_adts.json")
        try:
            _ANCHOR_ADTS = json.load(open(p))
        except Exception:
            _ANCHOR_ADTS = {}
    return _ANCHOR_ADTS


def _field_aliases(j):
    """{(adt path, new field name): old field name} for fields of the library's own types that were renamed since the
    reviewed tree (anchors_adts.json): the old name is gone and exactly one new field of the same variant has its type,
    or the variant has the same field types in the same order (tuple struct <-> named fields)"""
    table = _anchor_adts()
    out = {}
    cur = {a["path"]: a for a in j.get("adts", [])}
    by_last = defaultdict(list)
    for pth in cur:
        by_last[pth.split("::")[-1]].append(pth)
    try:
        import os
        alt = json.load(open(os.path.join(os.path.dirname(os.path.dirname(os.path.abspath(__file__))), "anchors_adts_alt.json")))
    except Exception:
        alt = {}
    for path, variants in list(table.items()) + list(alt.items()):
        a = cur.get(path)
        if a is None:
            c = by_last.get(path.split("::")[-1], [])
            a = cur[c[0]] if len(c) == 1 else None
        if a is None:
            continue
        for vi, (vname, ofields) in enumerate(variants):
            nv = [v for v in a["variants"] if v["name"] == vname]
            if len(nv) != 1:
                continue
            nfields = [(f["name"], f["ty"]) for f in nv[0]["fields"]]
            onames = {n for n, _ in ofields}
            nnames = {n for n, _ in nfields}
            missing = [(n, t) for n, t in ofields if n not in nnames]
            extra = [(n, t) for n, t in nfields if n not in onames]
            if not missing or not extra:
                continue
            if len(ofields) == len(nfields) and [t for _, t in ofields] == [t for _, t in nfields]:
                for (on, _), (nn, _) in zip(ofields, nfields):
                    if on != nn:
                        out.setdefault((a["path"], nn), on)
                continue
            for on, ot in missing:
                c = [nn for nn, nt in extra if nt == ot]
                if len(c) == 1 and sum(1 for n2, t2 in missing if t2 == ot) == 1:
                    out.setdefault((a["path"], c[0]), on)
    return out


def _rename_fields(x, ren):
    if isinstance(x, dict):
        if "f" in x and "adt" in x and (x["adt"], x["f"]) in ren:
            x["f"] = ren[(x["adt"], x["f"])]
        if x.get("agg") == "adt" and isinstance(x.get("fields"), list) and x.get("adt"):
            x["fields"] = [ren.get((x["adt"], f), f) for f in x["fields"]]
        for v in x.values():
            _rename_fields(v, ren)
    elif isinstance(x, list):
        for v in x:
            _rename_fields(v, ren)


class Crate:
    def __init__(self, j, strip_prefix=None, use_anchors=True):
        if strip_prefix:
            j = json.loads(json.dumps(j).replace(strip_prefix, ""))
        self.field_aliases = {}
        self.adt_aliases = {}
        if use_anchors and j.get("crate") == "slotted_egraphs":
            # a type of the reviewed tree that is gone while exactly one new type of the same module has its field types in the same
            # order was renamed (`State` -> `MatchState`): it is presented under its old path
            table_ = _anchor_adts()
            if table_:
                cur_ = {a["path"]: a for a in j.get("adts", [])}
                last_ = {p_.split("::")[-1] for p_ in cur_}
                for opath, variants in table_.items():
                    if opath in cur_ or opath.split("::")[-1] in last_ or len(variants) != 1:
                        continue
                    mod_ = opath.rsplit("::", 1)[0]
                    otys = [t for _, t in variants[0][1]]
                    cands = [a for a in j.get("adts", []) if a["path"].rsplit("::", 1)[0] == mod_ and a["path"] not in table_ and len(a["variants"]) == 1
                             and [f["ty"] for f in a["variants"][0]["fields"]] == otys]
                    if len(cands) == 1:
                        self.adt_aliases[cands[0]["path"]] = opath
                if self.adt_aliases:
                    txt = json.dumps(j)
                    for npath, opath in self.adt_aliases.items():
                        txt = re.sub(r"(?<![A-Za-z0-9_])%s(?![A-Za-z0-9_])" % re.escape(npath), opath, txt)
                        # the variant of a struct is named like the struct
                        nlast, olast = npath.split("::")[-1], opath.split("::")[-1]
                        txt = txt.replace('"name": "%s"' % nlast, '"name": "%s"' % olast).replace('"variant": "%s"' % nlast, '"variant": "%s"' % olast)
                    j = json.loads(txt)
            ren = _field_aliases(j)
            # a private struct that did not exist in the reviewed tree and merely gives names to the components of what was a tuple
            # (`(Slot, Slot)` -> `Entry { key, val }`, `(usize, String)` -> `ShowEntry { idx, line }`): its fields are presented by
            # position, as a tuple's are
            table_ = _anchor_adts()
            if table_:
                known_last_ = {p_.split("::")[-1] for p_ in table_}
                for a in j.get("adts", []):
                    pth = a["path"]
                    if pth in table_ or pth.split("::")[-1] in known_last_ or pth.startswith(("std::", "core::", "alloc::")) or a.get("kind") != "Struct":
                        continue
                    if len(a["variants"]) != 1 or not (2 <= len(a["variants"][0]["fields"]) <= 4):
                        continue
                    fs_ = a["variants"][0]["fields"]
                    if all(str(f["name"]).isdigit() for f in fs_):
                        continue
                    for k_, f in enumerate(fs_):
                        ren[(pth, f["name"])] = str(k_)
            if ren:
                # rules address fields by the names of the reviewed tree
                j = json.loads(json.dumps(j))
                _rename_fields(j["bodies"], ren)
                for a in j["adts"]:
                    for v in a["variants"]:
                        for f in v["fields"]:
                            if (a["path"], f["name"]) in ren:
                                f["name"] = ren[(a["path"], f["name"])]
                self.field_aliases = {"%s.%s" % k: v for k, v in ren.items()}
        self.j = j
        self.name = j["crate"]
        self.features = j["features"]
        self.tag = j.get("tag")
        self.bodies = {}
        self.by_name = defaultdict(list)
        for bj in j["bodies"]:
            b = Body(self, bj)
            self.bodies[b.id] = b
        for b in self.bodies.values():
            if b.name:
                self.by_name[b.name].append(b)
        self._link_closures()
        self.aliases = {}
        self.adts = {a["path"]: a for a in j["adts"]}
        if use_anchors and self.name == "slotted_egraphs":
            self._inject_aliases()
            self._normalise_param_names()
        self.impls = j["impls"]
        self.statics = j["statics"]
        self.unsafe = j["unsafe"]
        self._cache = {}
        self.wrappers = {}
        if use_anchors and self.name == "slotted_egraphs":
            self._splice_wrappers()

    def _splice_wrappers(self):
        """A field of one of the library's types that was given a private type of its own — `pending: HashMap<L, PendingType>`
        becomes `pending: PendingQueue<L>`, a struct that did not exist in the reviewed tree, with one field and a handful of small
        methods (insert / schedule / pop ..): the rules address the field as the container it was.  The wrapper's methods are
        spliced in at every call site and the projection onto the wrapper's single field is dropped, so that
        `self.pending.pop()` reads as the `keys().next()` / `remove()` on `self.pending` it stands for."""
        table = _anchor_adts()
        if not table:
            return
        known_last = {p_.split("::")[-1] for p_ in table}
        reviewed_field_tys = []
        for a in self.adts.values():
            if a["path"] in table or a["path"].split("::")[-1] in known_last:
                for v in a["variants"]:
                    for f in v["fields"]:
                        reviewed_field_tys.append(f["ty"])
        wr = {}
        for a in self.adts.values():
            pth = a["path"]
            if pth in table or pth.split("::")[-1] in known_last or pth.startswith(("std::", "core::", "alloc::")):
                continue
            if len(a["variants"]) != 1 or len(a["variants"][0]["fields"]) != 1 or a.get("kind", "struct") not in ("struct", "Struct"):
                continue
            if not any(t == pth or t.startswith(pth + "<") for t in reviewed_field_tys):
                continue
            wr[pth] = a["variants"][0]["fields"][0]["name"]
        # thin entry points: a small branch-free function that did not exist in the reviewed tree (or kept a reviewed name but changed
        # its signature, see _inject_aliases) and only forwards to one function of the crate with some arguments filled in
        forwarders = set()
        fn_table = _anchors()
        fn_names = {k_.rsplit("::", 1)[1] for k_ in fn_table}
        for b in self.bodies.values():
            if b.kind == "Closure" or not b.name or not (b.file or "").startswith("src/") or b.auto_derived or (b.file or "").endswith("tst.rs"):
                continue
            if not (getattr(b, "thin_entry", False) or (b.name not in fn_names and not getattr(b, "real_name", None))):
                continue
            live = [bl for bl in b.blocks if not bl["cleanup"]]
            if len(live) > 5 or any(bl["term"]["k"] == "switch" for bl in live):
                continue
            cs = [c for c in b.calls if not b.blocks[c.bb]["cleanup"]]
            if len(cs) != 1 or cs[0].callee is None or cs[0].callee.target not in self.bodies or cs[0].callee.target == b.id:
                continue
            t = self.bodies[cs[0].callee.target]
            if t.kind == "Closure" or not (t.file or "").startswith("src/") or b.closures:
                continue
            forwarders.add(b.id)
        if not wr and not forwarders:
            return
        self.wrappers = wr
        methods = set(forwarders)
        for b in self.bodies.values():
            if b.kind == "Closure" or not b.impl_self:
                continue
            w = [pth for pth in wr if b.impl_self == pth or b.impl_self.startswith(pth + "<")]
            if not w or sum(1 for bl in b.blocks if not bl["cleanup"]) > 60:
                continue
            if any(c.callee and c.callee.target == b.id for c in b.calls):
                continue
            methods.add(b.id)

        def strip(x):
            if isinstance(x, dict):
                if "l" in x and "p" in x and isinstance(x["p"], list):
                    x["p"] = [q for q in x["p"] if not (isinstance(q, dict) and q.get("adt") in wr and q.get("f") == wr[q.get("adt")])]
                for v in x.values():
                    strip(v)
            elif isinstance(x, list):
                for v in x:
                    strip(v)
        repl = {}
        for bid, b in list(self.bodies.items()):
            if bid in methods:
                continue
            if not any(c.callee and c.callee.target in methods and not b.blocks[c.bb]["cleanup"] for c in b.calls):
                continue
            v = inline_view(self, b, depth=2, policy=methods)
            if v is b:
                continue
            j2 = json.loads(json.dumps(v.j))
            strip(j2)
            _thread_known_variants(j2)
            nb = Body(self, j2)
            nb.closures = list(b.closures)
            nb.parent_body = b.parent_body
            nb.creation = b.creation
            for attr in ("real_name",):
                if hasattr(b, attr):
                    setattr(nb, attr, getattr(b, attr))
            nb.name = b.name
            nb.spliced_wrappers = sorted(set(getattr(v, "inlined", [])))
            repl[bid] = (b, nb)
        for bid, (b, nb) in repl.items():
            self.bodies[bid] = nb
            for nm, lst in self.by_name.items():
                for i, x in enumerate(lst):
                    if x is b:
                        lst[i] = nb
        for b in self.bodies.values():
            if b.parent_body is not None and b.parent_body.id in repl and b.parent_body is repl[b.parent_body.id][0]:
                b.parent_body = repl[b.parent_body.id][1]
            if b.creation is not None and b.creation[0].id in repl and b.creation[0] is repl[b.creation[0].id][0]:
                pb, bi, si, ops = b.creation
                b.creation = (repl[pb.id][1], bi, si, ops)
        # (every parent, replaced or not: a closure that was re-built must be what its parent's all_bodies() hands out)
        for nb in list(self.bodies.values()) + [x[1] for x in repl.values()]:
            nb.closures = [repl[c.id][1] if c.id in repl and c is repl[c.id][0] else c for c in nb.closures]
        if self.aliases:
            for b in (x[1] for x in repl.values()):
                for c in b.calls:
                    if c.callee is not None and c.callee.target in self.aliases:
                        c.callee.name = self.aliases[c.callee.target]
        self._cache = {}

    def _inject_aliases(self):
        """a function recorded in anchors.json that no longer exists under its name in its file, while exactly one
        function of that file with a new name has the same parameter and return types: it was renamed / moved between a
        free function and an impl block.  Register it under the old name as well (rules address functions by the names
        of the reviewed tree)."""
        self.aliases = {}
        table = _anchors()
        by_file = defaultdict(list)
        for b in self.bodies.values():
            if b.kind != "Closure" and b.name and (b.file or "").startswith("src/") and not b.auto_derived:
                by_file[b.file].append(b)
        known = defaultdict(set)
        for k in table:
            f, n = k.rsplit("::", 1)
            known[f].add(n)
        # (a name that several functions of a file share — the methods of a trait implemented for several types — is not recorded
        # in the table, but it is not a new name either)
        namecount = defaultdict(int)
        for f_, bs_ in by_file.items():
            for b_ in bs_:
                namecount[(f_, b_.name)] += 1
        def fresh(b, f):
            return b.name not in known[f] and namecount[(b.file, b.name)] == 1
        ambiguous = []
        def take(n, b):
            self.by_name[n].append(b)
            self.aliases[b.id] = n
            b.real_name = b.name
            b.name = n            # rules (and their name tables) see the name of the reviewed tree
        alt = _anchor_alt()
        for k, sig in [(k_, s_) for k_, s0 in table.items() for s_ in [s0] + alt.get(k_, [])]:
            f, n = k.rsplit("::", 1)
            bs = by_file.get(f)
            if not bs:
                continue
            same = [b for b in bs if b.name == n]
            if same:
                # the name is still there.  One case is looked at: the function kept its name but lost a parameter and became a thin
                # entry point of a new private function that has the reviewed signature (`touched_class(i, ty)` turned into
                # `touched_class(i)` / `touched_class_analysis(i)` over `requeue_usages(i, ty)`): the new function is the reviewed one
                if len(same) != 1 or getattr(same[0], "real_name", None):
                    continue
                F = same[0]
                allsigs = [table[k]] + alt.get(k, [])
                fsig = [F.local_ty(l) for l in range(1, F.argc + 1)] + ["->", F.local_ty(0)]
                # (the function kept its name, but its out-parameter became a return value: `fn f(s: &mut T, ..)` -> `fn f(s: T, ..) -> T`)
                if fsig not in allsigs and sig[-1] == "()" and F.argc == len(sig) - 2 and not getattr(F, "out_param_as_return", None):
                    tys_ = fsig[:-2]
                    diff_ = [i for i in range(len(tys_)) if tys_[i] != sig[i]]
                    if len(diff_) == 1 and sig[diff_[0]] == "&mut " + tys_[diff_[0]] and F.local_ty(0) == tys_[diff_[0]]:
                        F.out_param_as_return = diff_[0] + 1
                        continue
                if fsig in allsigs or sum(1 for bl in F.blocks if not bl["cleanup"]) > 6:
                    continue
                tg = {c.callee.target for c in F.calls if c.callee and not F.blocks[c.bb]["cleanup"] and c.callee.target in self.bodies}
                gs = [b for b in bs if fresh(b, f) and b.id in tg and [b.local_ty(l) for l in range(1, b.argc + 1)] + ["->", b.local_ty(0)] == sig]
                if len(gs) == 1:
                    self.by_name[n] = [x for x in self.by_name[n] if x is not F]
                    F.real_name = F.name
                    F.name = n + "__entry"
                    F.thin_entry = True
                    self.by_name[F.name].append(F)
                    take(n, gs[0])
                continue
            cands = [b for b in bs if fresh(b, f) and [b.local_ty(l) for l in range(1, b.argc + 1)] + ["->", b.local_ty(0)] == sig]
            def same_sig_unordered(b):
                return sorted(b.local_ty(l) for l in range(1, b.argc + 1)) == sorted(sig[:-2]) and b.local_ty(0) == sig[-1]
            if not cands:
                cands = [b for b in bs if fresh(b, f) and same_sig_unordered(b)]
            if not cands:
                # moved to another file of the crate (free function -> method of the type it works on, new submodule ..)
                allknown = set().union(*known.values()) if known else set()
                cands = [b for bs2 in by_file.values() for b in bs2 if b.name not in allknown and namecount[(b.file, b.name)] == 1 and same_sig_unordered(b)]
            if not cands:
                # free function -> method of a private context struct that bundles the e-graph reference
                # (`fn ematch_impl(p, st, i, eg)` -> `Matcher { eg }.match_pattern(p, st, i)`): the `&EGraph` parameter is
                # replaced by a reference to a struct of this crate that has a field of that type
                eg_params = [t for t in sig[:-2] if t.startswith("&") and "egraph::EGraph<" in t]
                if len(eg_params) == 1:
                    rest = sorted(t for t in sig[:-2] if t is not eg_params[0])
                    def ctx_struct(t):
                        if not t.startswith("&"):
                            return False
                        path = re.sub(r"<.*$", "", t.lstrip("&").replace("mut ", "").strip())
                        a = self.adts.get(path)
                        return a is not None and any("egraph::EGraph<" in f["ty"] for v in a["variants"] for f in v["fields"])
                    for b in bs:
                        if not fresh(b, f):
                            continue
                        tys = [b.local_ty(l) for l in range(1, b.argc + 1)]
                        cx = [t for t in tys if ctx_struct(t)]
                        if len(cx) == 1 and sorted(t for t in tys if t is not cx[0]) == rest and b.local_ty(0) == sig[-1]:
                            cands.append(b)
            if not cands and sig[-1] == "()":
                # an out-parameter turned into a return value: `fn f(s: &mut T, ..)` -> `fn f(s: T, ..) -> T`
                for b in bs:
                    if not fresh(b, f) or b.argc != len(sig) - 2:
                        continue
                    tys = [b.local_ty(l) for l in range(1, b.argc + 1)]
                    diff = [i for i in range(len(tys)) if tys[i] != sig[i]]
                    if len(diff) == 1 and sig[diff[0]] == "&mut " + tys[diff[0]] and b.local_ty(0) == tys[diff[0]]:
                        b.out_param_as_return = diff[0] + 1
                        cands.append(b)
            if len(cands) == 1:
                take(n, cands[0])
            elif len(cands) > 1:
                ambiguous.append((k, n, cands))
        if ambiguous:
            # several functions of one signature were renamed together (`on_see_slot` / `add_slot`): tell them apart by the
            # names they call (anchors_calls.json: callee names per function of the reviewed tree).  Names that are
            # themselves renamed or new are left out on both sides; the best candidate has to be strictly best.
            ctab = _anchor_calls()
            allknown = set().union(*known.values()) if known else set()
            missing = {n for _, n, _ in ambiguous}
            def callees(b):
                out = set()
                for c in b.calls:
                    if c.callee is None or b.blocks[c.bb]["cleanup"]:
                        continue
                    t = self.bodies.get(c.callee.target)
                    if t is not None and (t.file or "").startswith("src/") and t.name not in allknown:
                        continue
                    out.add(c.callee.name)
                return out
            taken = set()
            for k, n, cands in ambiguous:
                want = set(ctab.get(k, [])) - missing
                scored = []
                for b in cands:
                    if b.id in taken or getattr(b, "real_name", None):
                        continue
                    have = callees(b)
                    u = want | have
                    scored.append((len(want & have) / len(u) if u else 0.0, b))
                scored.sort(key=lambda x: -x[0])
                if scored and scored[0][0] >= 0.5 and (len(scored) == 1 or scored[0][0] > scored[1][0]):
                    taken.add(scored[0][1].id)
                    take(n, scored[0][1])
        if self.aliases:
            # call sites of a renamed function are seen under the old name as well
            for b in self.bodies.values():
                for c in b.calls:
                    if c.callee is not None and c.callee.target in self.aliases:
                        c.callee.name = self.aliases[c.callee.target]

    def _normalise_param_names(self):
        """rules name a few parameters literally (`m`, `eg`, `subst`, ..).  A function of the reviewed tree whose parameters
        have the reviewed types, position by position, but other names had them renamed: the reviewed names are put back
        (anchors_params.json, written by mkanchors.py), unless that would clash with a name the function uses now."""
        table = _anchor_params()
        sigs = _anchors()
        if not table:
            return
        for b in self.bodies.values():
            if b.kind == "Closure" or not b.name or not (b.file or "").startswith("src/"):
                continue
            k = "%s::%s" % (b.file, b.name)
            names = table.get(k)
            sig = sigs.get(k)
            if names is None:
                ks = [kk for kk in table if kk.rsplit("::", 1)[1] == b.name]
                if len(ks) != 1 or len(self.by_name.get(b.name, [])) != 1:
                    continue
                names, sig = table[ks[0]], sigs.get(ks[0])
            if not sig or len(names) != b.argc or len(sig) - 2 != b.argc:
                continue
            sig_alts = [sig] + [s2 for s2 in _anchor_alt().get(k, []) if len(s2) == len(sig)]
            used = set(b.var_names.values())
            for l in range(1, b.argc + 1):
                want, have = names[l - 1], b.var_names.get(l)
                if want and have != want and any(b.local_ty(l) == s2[l - 1] for s2 in sig_alts) and want not in used:
                    b.var_names[l] = want
                    used.add(want)
            # reordered parameters: a reviewed name that is still missing goes to the one parameter of its type that has no reviewed
            # name yet (same multiset of parameter types as in the reviewed tree)
            for s2 in sig_alts:
                cur_tys = [b.local_ty(l) for l in range(1, b.argc + 1)]
                if sorted(cur_tys) != sorted(s2[:-2]):
                    continue
                have_names = {b.var_names.get(l) for l in range(1, b.argc + 1)}
                for want, wty in zip(names, s2[:-2]):
                    if not want or want in have_names:
                        continue
                    free_l = [l for l in range(1, b.argc + 1) if cur_tys[l - 1] == wty and b.var_names.get(l) not in names]
                    missing_same_ty = [w for w, t in zip(names, s2[:-2]) if t == wty and w and w not in have_names]
                    if len(free_l) == 1 and len(missing_same_ty) == 1 and want not in set(b.var_names.values()):
                        b.var_names[free_l[0]] = want
                        have_names.add(want)
                break

    def _link_closures(self):
        for b in self.bodies.values():
            for bi, si, s in b.statements():
                rv = s["rv"] if s["k"] == "assign" else None
                if rv and rv["k"] == "agg" and rv.get("agg") == "closure":
                    c = self.bodies.get(rv["def"])
                    if c is not None:
                        c.parent_body = b
                        c.creation = (b, bi, si, rv["ops"])
                        b.closures.append(c)
        # closures passed as constants (no captures) : attach to their root
        for b in self.bodies.values():
            if b.kind == "Closure" and b.parent_body is None and b.root:
                p = self.bodies.get(b.root)
                if p is not None and p is not b:
                    b.parent_body = p
                    p.closures.append(b)

    def root_of(self, b):
        while b.parent_body is not None:
            b = b.parent_body
        return b

    def fns(self):
        """non-closure bodies"""
        return [b for b in self.bodies.values() if b.kind != "Closure"]

    def find(self, suffix):
        """bodies whose id ends with the given suffix (e.g. 'EGraph::<L, N>::eq')"""
        return [b for b in self.bodies.values() if b.id.endswith(suffix)]

    def method(self, self_ty_contains, name, trait=None):
        out = []
        for b in self.by_name.get(name, []):
            if b.kind == "Closure":
                continue
            if self.aliases.get(b.id) == name:
                out.append(b)      # renamed / moved: found again by its signature
                continue
            if self_ty_contains is not None and self_ty_contains not in (b.impl_self or ""):
                continue
            if trait is not None and trait not in (b.impl_trait or ""):
                continue
            if trait is None and self_ty_contains is not None and b.impl_trait:
                continue
            out.append(b)
        return out

    def one(self, self_ty_contains, name, trait=None):
        m = self.method(self_ty_contains, name, trait)
        if len(m) != 1:
            raise AnchorMissing("%s::%s" % (self_ty_contains, name), "expected exactly one body, found %d" % len(m))
        return m[0]

    def adt_named(self, path):
        """the ADT with this path — or, when it was moved to another module of the crate, the only ADT with that name"""
        a = self.adts.get(path)
        if a is not None:
            return a
        last = path.split("::")[-1]
        cands = [v for k, v in self.adts.items() if k.split("::")[-1] == last and not k.startswith("std::") and not k.startswith("core::")]
        return cands[0] if len(cands) == 1 else None

    def free_fn(self, name, path_contains=None):
        out = [b for b in self.by_name.get(name, []) if (b.kind == "Fn" or self.aliases.get(b.id) == name) and b.kind != "Closure" and (path_contains is None or path_contains in b.id or self.aliases.get(b.id) == name)]
        return out

    # ---------------------------------------------------------------- field access census
    def field_writers(self, adt, field):
        """root functions that (including through their closures) store to a place containing
        .field of adt, or take a mutable borrow of such a place.
        returns {root body id: [ (body, bb, kind, line) ]}"""
        key = ("fw", adt, field)
        if key in self._cache:
            return self._cache[key]
        out = defaultdict(list)
        for b in self.bodies.values():
            for bi, si, s in b.statements():
                if s["k"] != "assign":
                    continue
                if place_has_field(s["lhs"], adt, field):
                    # store into (part of) the field
                    out[self.root_of(b).id].append((b, bi, "store", s.get("line")))
                rv = s["rv"]
                if rv["k"] == "ref" and rv.get("mut") and place_has_field(rv["pl"], adt, field):
                    out[self.root_of(b).id].append((b, bi, "mutborrow", s.get("line")))
            for c in b.calls:
                if b.blocks[c.bb]["cleanup"]:
                    continue
                d = c.dest
                if d and place_has_field(d, adt, field):
                    out[self.root_of(b).id].append((b, c.bb, "store", c.line))
                # moving the field out (e.g. into_iter(self.map)) is not a write of the live value
        self._cache[key] = out
        return out

    def field_readers(self, adt, field):
        key = ("fr", adt, field)
        if key in self._cache:
            return self._cache[key]
        out = defaultdict(list)

        def scan_op(b, bi, op, line):
            pl = op_place(op)
            if pl is not None and place_has_field(pl, adt, field):
                out[self.root_of(b).id].append((b, bi, "read", line))

        for b in self.bodies.values():
            for bi, si, s in b.statements():
                if s["k"] != "assign":
                    continue
                rv = s["rv"]
                k = rv["k"]
                if k in ("use", "cast", "repeat"):
                    scan_op(b, bi, rv["op"], s.get("line"))
                elif k in ("ref", "discr", "rawptr"):
                    if place_has_field(rv["pl"], adt, field):
                        out[self.root_of(b).id].append((b, bi, "ref", s.get("line")))
                elif k == "bin":
                    scan_op(b, bi, rv["a"], s.get("line"))
                    scan_op(b, bi, rv["b"], s.get("line"))
                elif k == "un":
                    scan_op(b, bi, rv["a"], s.get("line"))
                elif k == "agg":
                    for o in rv["ops"]:
                        scan_op(b, bi, o, s.get("line"))
            for c in b.calls:
                for a in c.args:
                    scan_op(b, c.bb, a, c.line)
        self._cache[key] = out
        return out

    # ---------------------------------------------------------------- call graph
    def callgraph(self):
        """root body id -> set of callee def paths (local ones are body ids), closures merged
        into their root function."""
        if "cg" in self._cache:
            return self._cache["cg"]
        cg = defaultdict(set)
        for b in self.bodies.values():
            r = self.root_of(b).id
            for c in b.calls:
                if c.callee is None:
                    continue
                cg[r].add(c.callee.target)
                # a reference to a function passed as a value
            for bi, si, s in b.statements():
                pass
            # function items used as values
            for c in b.calls:
                for a in c.args:
                    if a["k"] == "const" and "fn" in a:
                        cg[r].add(a.get("res") or a["fn"])
        self._cache["cg"] = cg
        return cg

    def trait_impl_methods(self, trait_path, method):
        """local bodies implementing trait::method"""
        out = []
        for b in self.bodies.values():
            if b.kind == "Closure":
                continue
            if b.name == method and b.impl_trait and (b.impl_trait == trait_path or b.impl_trait.endswith("::" + trait_path) or trait_path.endswith("::" + b.impl_trait) or b.impl_trait.split("::")[-1] == trait_path.split("::")[-1]):
                out.append(b)
        return out

    def reachable_from(self, start_ids, resolve_traits=True):
        """set of local root body ids reachable in the call graph from the given body ids.
        An unresolved call to a trait method of a local trait is expanded to every local impl."""
        cg = self.callgraph()
        seen = set()
        work = list(start_ids)
        while work:
            x = work.pop()
            if x in seen:
                continue
            seen.add(x)
            for t in cg.get(x, ()):
                if t in self.bodies:
                    if t not in seen:
                        work.append(t)
                elif resolve_traits:
                    # unresolved trait method: Trait::method
                    for b in self._impls_for_unresolved(t):
                        if b.id not in seen:
                            work.append(b.id)
        return seen

    def _impls_for_unresolved(self, target):
        key = ("unres", target)
        if key in self._cache:
            return self._cache[key]
        out = []
        if target and "::" in target:
            tr, _, m = target.rpartition("::")
            for b in self.by_name.get(m, []):
                if b.kind != "Closure" and b.impl_trait and b.impl_trait == tr:
                    out.append(b)
        self._cache[key] = out
        return out


class AnchorMissing(Exception):
    def __init__(self, anchor, why=""):
        Exception.__init__(self, "anchor missing: %s %s" % (anchor, why))
        self.anchor = anchor
        self.why = why


def _guards_dominating(self, bb):
    """switch edges that dominate block bb, each with the role of the switch discriminant:
    [(('e', S, label), role, is_zero_edge)]   (is_zero_edge: the discriminant was 0/false on it)"""
    dom = self.dominators()
    out = []
    for n in dom.get(bb, ()):
        if isinstance(n, tuple) and n[0] == "e":
            t = self.blocks[n[1]]["term"]
            role = self.role_of_operand(t["discr"])
            label = n[2]
            if label == "otherwise":
                vals = [v for v, _ in t["cases"]]
                zero = None if "0" in vals else None
                # otherwise edge of a bool switch with case 0 => value was non-zero (true)
                truth = True if vals == ["0"] else None
            else:
                truth = False if label == "0" else (True if label == "1" else None)
            out.append((n, role, truth))
    return out


Body.guards_dominating = _guards_dominating


# ---------------------------------------------------------------------------- value dependence
class Deps:
    """Flow-insensitive, over-approximating value dependence for one root function and the
    closures created in it.  Nodes are (body id, local) and (closure body id, 'U', i) for the
    i-th captured variable.  node -> nodes it may depend on, node -> atoms.
    Atoms: ('param', body, name) ('call', body, bb, name, owner) ('field', adt, field)
           ('const', text) ('tls', def)"""

    def __init__(self, crate, root):
        self.crate = crate
        self.root = root
        self.edges = defaultdict(set)
        self.atoms = defaultdict(set)
        for b in root.all_bodies():
            self._build(b)

    def _node(self, b, pl):
        """node for the base of a place; captured variables of closures get their own node"""
        if b.kind == "Closure" and pl["l"] == 1:
            for p in pl["p"]:
                if isinstance(p, dict) and "f" in p and p["f"].startswith("upvar#"):
                    return (b.id, "U", int(p["f"].split("#")[1]))
        return (b.id, pl["l"])

    def _use_place(self, b, tgt, pl):
        self.edges[tgt].add(self._node(b, pl))
        for p in pl["p"]:
            if isinstance(p, dict):
                if "f" in p and not p["f"].startswith("upvar#"):
                    self.atoms[tgt].add(("field", p["adt"], p["f"]))
                if "idx" in p:
                    self.edges[tgt].add((b.id, p["idx"]))

    def _use_op(self, b, tgt, op):
        if op["k"] in ("copy", "move"):
            self._use_place(b, tgt, op["pl"])
        elif op["k"] == "const":
            if "fn" in op:
                self.atoms[tgt].add(("fnconst", op.get("res") or op["fn"]))
            else:
                self.atoms[tgt].add(("const", op.get("text")))

    def _is_mut_ref_ty(self, ty):
        return ty.startswith("&mut ") or ty.startswith("&'") and " mut " in ty.split(" ", 2)[1:2]

    def _build(self, b):
        for l in range(1, b.argc + 1):
            if not (b.kind == "Closure" and l == 1):
                self.atoms[(b.id, l)].add(("param", b.id, b.var_names.get(l, "_%d" % l)))
        if b.creation is not None:
            parent, bb, si, ops = b.creation
            for i, o in enumerate(ops):
                u = (b.id, "U", i)
                self._use_op(parent, u, o)
                pl = op_place(o)
                if pl is not None:
                    # captured by reference: writes inside the closure reach the parent's variable
                    self.edges[self._node(parent, pl)].add(u)
        for bi, blk in enumerate(b.blocks):
            if blk["cleanup"]:
                continue
            for s in blk["stmts"]:
                if s["k"] != "assign":
                    continue
                tgt = self._node(b, s["lhs"])
                for p in s["lhs"]["p"]:
                    if isinstance(p, dict) and "idx" in p:
                        self.edges[tgt].add((b.id, p["idx"]))
                rv = s["rv"]
                k = rv["k"]
                if k in ("use", "cast", "repeat"):
                    self._use_op(b, tgt, rv["op"])
                elif k in ("ref", "rawptr"):
                    self._use_place(b, tgt, rv["pl"])
                    if rv.get("mut") or k == "rawptr":
                        self.edges[self._node(b, rv["pl"])].add(tgt)
                elif k == "discr":
                    self._use_place(b, tgt, rv["pl"])
                elif k == "bin":
                    self._use_op(b, tgt, rv["a"])
                    self._use_op(b, tgt, rv["b"])
                elif k == "un":
                    self._use_op(b, tgt, rv["a"])
                elif k == "agg":
                    for o in rv["ops"]:
                        self._use_op(b, tgt, o)
                    if rv.get("agg") == "closure":
                        c = self.crate.bodies.get(rv["def"])
                        if c is not None:
                            self.edges[tgt].add((c.id, 0))
                elif k == "tlref":
                    self.atoms[tgt].add(("tls", rv["def"]))
            t = blk["term"]
            if t["k"] == "call":
                cs = b.call_at[bi]
                tgt = self._node(b, t["dest"])
                if cs.callee is not None:
                    atom = ("call", b.id, bi, cs.callee.name, cs.callee.impl_self or cs.callee.trait or "", cs.callee.target)
                else:
                    atom = ("icall", b.id, bi)
                    self._use_op(b, tgt, t["func"])
                self.atoms[tgt].add(atom)
                argnodes = []
                for a in t["args"]:
                    self._use_op(b, tgt, a)
                    pl = op_place(a)
                    if pl is not None:
                        argnodes.append((self._node(b, pl), pl))
                    if a["k"] == "const" and a.get("closure"):
                        c = self.crate.bodies.get(a["closure"])
                        if c is not None:
                            self.edges[tgt].add((c.id, 0))
                # arguments that are (or contain) mutable references may be written by the callee
                for n, pl in argnodes:
                    ty = b.local_ty(pl["l"]) if not pl["p"] else ""
                    if pl["p"] or "&mut" in ty or "mut " in ty or True:
                        if "&mut" in (b.local_ty(pl["l"])) or (cs.callee is None):
                            self.atoms[n].add(atom)
                            for m, _ in argnodes:
                                if m != n:
                                    self.edges[n].add(m)
                            for a in t["args"]:
                                if a["k"] == "const":
                                    self._use_op(b, n, a)
                            # a returned reference may alias the argument
                            self.edges[n].add(tgt)

    def closure_of(self, start_nodes):
        seen = set()
        work = list(start_nodes)
        while work:
            n = work.pop()
            if n in seen:
                continue
            seen.add(n)
            for m in self.edges.get(n, ()):
                if m not in seen:
                    work.append(m)
        return seen

    def atoms_of_nodes(self, nodes):
        out = set()
        for n in self.closure_of(nodes):
            out |= self.atoms.get(n, set())
        return out

    def atoms_of_operand(self, b, op):
        tmp = ("tmp", id(op))
        self.edges.pop(tmp, None)
        self.atoms.pop(tmp, None)
        self._use_op(b, tmp, op)
        out = self.atoms_of_nodes([tmp])
        self.edges.pop(tmp, None)
        self.atoms.pop(tmp, None)
        return out

    def atoms_of_place(self, b, pl):
        return self.atoms_of_operand(b, {"k": "copy", "pl": pl})

    def atoms_of_local(self, b, l):
        return self.atoms_of_nodes([(b.id, l)])


def atoms_calls(atoms, name=None, owner=None):
    out = []
    for a in atoms:
        if a[0] == "call" and (name is None or a[3] == name) and (owner is None or owner in (a[4] or "") or owner in (a[5] or "")):
            out.append(a)
    return out


def atoms_params(atoms, body_id=None):
    return sorted({a[2] for a in atoms if a[0] == "param" and (body_id is None or a[1] == body_id)})


def atoms_fields(atoms):
    return sorted({(a[1], a[2]) for a in atoms if a[0] == "field"})


def _crate_deps(self, root):
    key = ("deps", root.id)
    if key not in self._cache:
        self._cache[key] = Deps(self, root)
    return self._cache[key]


Crate.deps = _crate_deps


# ---------------------------------------------------------------------------- finite evaluation
class EvalStuck(Exception):
    pass


def enum_eval(body, args, max_steps=500):
    """Constant propagation along the one feasible path of a call-free function over field-less
    enums / tuples of them (used to decide small truth tables such as PendingType::merge).
    args: list of values for the parameters; a value is an int (variant index / integer) or a
    list (tuple).  Returns the value of the return place.  Raises EvalStuck on anything else."""
    env = {i + 1: v for i, v in enumerate(args)}

    def rd_place(pl):
        if pl["l"] not in env:
            raise EvalStuck("read of unset local %d" % pl["l"])
        v = env[pl["l"]]
        for p in pl["p"]:
            if p == "*":
                continue
            if isinstance(p, dict) and "f" in p and isinstance(v, list):
                v = v[p["i"]]
            else:
                raise EvalStuck("projection %r" % (p,))
        return v

    def rd_op(op):
        if op["k"] in ("copy", "move"):
            return rd_place(op["pl"])
        if op["k"] == "const" and "int" in op:
            return int(op["int"])
        if op["k"] == "const" and "pvi" in op:
            return int(op["pvi"])
        raise EvalStuck("operand %r" % (op,))

    bb = 0
    for _ in range(max_steps):
        blk = body.blocks[bb]
        for s in blk["stmts"]:
            if s["k"] != "assign":
                raise EvalStuck("stmt")
            if s["lhs"]["p"]:
                raise EvalStuck("partial store")
            rv = s["rv"]
            k = rv["k"]
            if k == "use":
                v = rd_op(rv["op"])
            elif k == "agg" and rv.get("agg") == "tuple":
                v = [rd_op(o) for o in rv["ops"]]
            elif k == "agg" and rv.get("agg") == "adt" and not rv["ops"]:
                v = rv["vi"]
            elif k == "discr":
                v = rd_place(rv["pl"])
                if not isinstance(v, int):
                    raise EvalStuck("discr of non enum")
            elif k == "ref":
                v = rd_place(rv["pl"])
            else:
                raise EvalStuck("rvalue " + k)
            env[s["lhs"]["l"]] = v
        t = blk["term"]
        if t["k"] == "goto":
            bb = t["target"]
        elif t["k"] == "switch":
            v = rd_op(t["discr"])
            nxt = t["otherwise"]
            for val, tgt in t["cases"]:
                if int(val) == v:
                    nxt = tgt
            bb = nxt
        elif t["k"] == "return":
            return env.get(0)
        elif t["k"] == "unreachable":
            raise EvalStuck("reached unreachable")
        elif t["k"] == "call" and t.get("target") is not None and not t["dest"]["p"]:
            # `a == Variant` on a field-less enum: the derived PartialEq compares discriminants
            cal = Callee(t["func"])
            if cal.name in ("eq", "ne") and (cal.trait or "").endswith("cmp::PartialEq") and len(t["args"]) == 2:
                a, b2 = rd_op(t["args"][0]), rd_op(t["args"][1])
                if not (isinstance(a, int) and isinstance(b2, int)):
                    raise EvalStuck("comparison of non-enum values")
                env[t["dest"]["l"]] = int((a == b2) == (cal.name == "eq"))
                bb = t["target"]
            else:
                raise EvalStuck("call to " + str(cal.name))
        else:
            raise EvalStuck("terminator " + t["k"])
    raise EvalStuck("too many steps")


# ---------------------------------------------------------------------------- same-value reasoning
def _root_local(body, op, depth=0):
    """follow single-definition temporaries through use / ref / reborrow back to the variable the
    operand reads: returns (local, projection-signature) or None"""
    pl = op_place(op) if isinstance(op, dict) and "k" in op and op["k"] in ("copy", "move") else (op if isinstance(op, dict) and "l" in op else None)
    if pl is None:
        return None
    l = pl["l"]
    sig = tuple(p if p == "*" else (p.get("f") or p.get("dc") or "idx") for p in pl["p"] if p != "*")
    for _ in range(12):
        if 1 <= l <= body.argc:
            return (l, sig)
        ds = body.defs().get(l, [])
        if len(ds) != 1 or ds[0]["kind"] != "assign" or not ds[0]["full"]:
            return (l, sig)
        rv = ds[0]["rv"]
        if rv["k"] == "use" and rv["op"]["k"] in ("copy", "move"):
            npl = rv["op"]["pl"]
        elif rv["k"] == "ref":
            npl = rv["pl"]
        elif rv["k"] == "cast" and rv["op"]["k"] in ("copy", "move"):
            npl = rv["op"]["pl"]
        else:
            return (l, sig)
        sig = tuple(p if p == "*" else (p.get("f") or p.get("dc") or "idx") for p in npl["p"] if p != "*") + sig
        l = npl["l"]
    return (l, sig)


def _same_value(self, op_a, bb_a_edges, op_b, bb_b):
    """do the two operands read the same variable, with no assignment to it on any path from the
    guard edges (bb_a_edges: nodes of the expanded graph) to block bb_b ?"""
    ra, rb = _root_local(self, op_a), _root_local(self, op_b)
    if ra is None or rb is None or ra != rb:
        return False
    l = ra[0]
    def_blocks = {d["bb"] for d in self.defs().get(l, [])}
    if not def_blocks:
        return True
    fwd = self.reach(bb_a_edges)
    if bb_b not in fwd:
        return False
    # blocks on a path guard -> use: reachable from the guard and able to reach the use without re-entering it
    g = self.xgraph()
    rg = defaultdict(list)
    for n, ss in g.items():
        for s in ss:
            rg[s].append(n)
    back = set()
    dq = deque([bb_b])
    guard = set(bb_a_edges)
    while dq:
        n = dq.popleft()
        for p in rg.get(n, ()):
            if p in guard:
                continue        # crossing the guard again re-establishes the fact
            if p not in back and p in fwd:
                back.add(p)
                dq.append(p)
    between = {n for n in back if isinstance(n, int)}
    # a definition in the use block itself happens after the guard only if it precedes the use; calls define at block end
    return not (def_blocks & (between - {bb_b}))


Body.same_value = _same_value
Body.root_local = lambda self, op: _root_local(self, op)


# ---------------------------------------------------------------------------- inlined view
def _shift(o, dl, db, nblocks_self):
    """deep copy of a JSON fragment with local indices shifted by dl and block indices by db"""
    if isinstance(o, dict):
        out = {}
        is_place = "l" in o and "p" in o and isinstance(o.get("p"), list)
        for k, v in o.items():
            if is_place and k == "l":
                out[k] = v + dl
            elif k == "idx" and isinstance(v, (int, str)) and str(v).isdigit():
                out[k] = type(v)(int(v) + dl)
            elif k in ("target", "otherwise", "unwind") and isinstance(v, int):
                out[k] = v + db
            elif k == "cases":
                out[k] = [[c[0], c[1] + db] for c in v]
            else:
                out[k] = _shift(v, dl, db, nblocks_self)
        return out
    if isinstance(o, list):
        return [_shift(x, dl, db, nblocks_self) for x in o]
    return o


def _thread_known_variants(j, max_chain=6):
    """jump threading on a body's JSON: a block that builds `X = Enum::Variant{..}` and then reaches — through a short chain of
    plain blocks that only move X along (the spliced-in helper's return block: `dest = move X`) — a switch on the discriminant of
    that value is sent straight to the arm of that variant (the blocks of the chain are duplicated for it).  Without this a
    spliced helper that returns `Some(..)` on one path and `None` on another looks, after the join in its return block, as if
    the caller's `while let Some(..)` could leave the loop with the `Some` in hand."""
    blocks = j["blocks"]
    n0 = len(blocks)
    for bi in range(n0):
        B = blocks[bi]
        if B["cleanup"]:
            continue
        known = None
        tB = B["term"]
        if tB["k"] == "call":
            # `None?` : <Option<T> as FromResidual<Option<Infallible>>>::from_residual always answers None
            fn_ = tB["func"]
            ga = fn_.get("gargs") or []
            if fn_.get("k") == "const" and str(fn_.get("fn", "")).endswith("FromResidual::from_residual") and len(ga) >= 2 and all(str(g).startswith("std::option::Option<") for g in ga[:2]) \
                    and not tB["dest"]["p"] and tB.get("target") is not None:
                known = (tB["dest"]["l"], 0, len(B["stmts"]))
        elif tB["k"] in ("goto", "drop"):
            for si, st in enumerate(B["stmts"]):
                if st["k"] == "assign" and not st["lhs"]["p"] and st["rv"]["k"] == "agg" and st["rv"].get("agg") == "adt" and "vi" in st["rv"]:
                    known = (st["lhs"]["l"], st["rv"]["vi"], si)
        if known is None:
            continue
        carry = {known[0]}
        vi = known[1]
        ok = True
        for st in B["stmts"][known[2] + 1:]:
            if st["k"] == "assign" and st["lhs"]["l"] in carry:
                ok = False
        if not ok:
            continue
        chain = []
        cur = B["term"].get("target")
        target = None
        for _ in range(max_chain):
            if cur is None or cur >= n0 or cur == bi or cur in chain:
                break
            N = blocks[cur]
            if N["cleanup"]:
                break
            dl = None
            bad = False
            for st in N["stmts"]:
                if st["k"] != "assign":
                    continue
                rv = st["rv"]
                if rv["k"] == "use" and rv["op"]["k"] in ("move", "copy") and not rv["op"]["pl"]["p"] and rv["op"]["pl"]["l"] in carry and not st["lhs"]["p"]:
                    carry.add(st["lhs"]["l"])
                elif rv["k"] == "discr" and not rv["pl"]["p"] and rv["pl"]["l"] in carry and not st["lhs"]["p"]:
                    dl = st["lhs"]["l"]
                elif st["lhs"]["l"] in carry:
                    bad = True
            if bad:
                break
            t = N["term"]
            chain.append(cur)
            if t["k"] == "switch":
                pl = t["discr"].get("pl") if t["discr"]["k"] in ("move", "copy") else None
                if pl is not None and not pl["p"] and pl["l"] == dl:
                    hit = [c[1] for c in t["cases"] if c[0] == str(vi)]
                    target = hit[0] if hit else t["otherwise"]
                break
            if t["k"] not in ("goto", "drop"):
                break
            cur = t.get("target")
        if target is None or not chain:
            continue
        # duplicate the chain for this predecessor; the copy of the switch block jumps to the one feasible arm
        new_ids = []
        for k, ci in enumerate(chain):
            cp = json.loads(json.dumps(blocks[ci]))
            cp["threaded_from"] = ci
            blocks.append(cp)
            new_ids.append(len(blocks) - 1)
        for k, ni in enumerate(new_ids):
            t = blocks[ni]["term"]
            if k + 1 < len(new_ids):
                t["target"] = new_ids[k + 1]
            else:
                blocks[ni]["term"] = {"k": "goto", "target": target, "line": t.get("line"), "threaded": True}
        B["term"]["target"] = new_ids[0]


def default_inline_policy(crate):
    """private, non-recursive, crate-local functions with exactly one call site in the whole crate: extracting a
    block into such a helper (or inlining it back) does not change behaviour, so shape rules look through them"""
    key = "inline_policy"
    if key in crate._cache:
        return crate._cache[key]
    sites = defaultdict(int)
    for b in crate.bodies.values():
        for c in b.calls:
            if c.callee and c.callee.target in crate.bodies and not b.blocks[c.bb]["cleanup"]:
                sites[c.callee.target] += 1
    ok = set()
    for fid, n in sites.items():
        f = crate.bodies[fid]
        if f.kind == "Closure" or f.vis == "pub" or f.impl_trait:
            continue
        # tiny private accessors (`fn best(&self, id) -> &T { &self.map[&id] }`) are looked through wherever they are called
        live = [bl for bl in f.blocks if not bl["cleanup"]]
        accessor = not any(bl["term"]["k"] == "switch" for bl in live) and sum(1 for bl in live if bl["term"]["k"] == "call") <= 1 and f.argc <= 4 and not any(f.local_ty(l).startswith("&mut") for l in range(1, f.argc + 1))
        # a function that does not exist in the reviewed tree (anchors.json) and is not a renamed old one: duplicated code merged
        # behind a new small helper.  No rule can refer to it by name, so it is looked through at every call site.
        new_helper = False
        if n != 1 and not accessor and getattr(crate, "aliases", None) is not None and (f.file or "").startswith("src/") and f.name:
            tab = _anchors()
            known_names = crate._cache.get("anchor_names")
            if known_names is None:
                known_names = crate._cache["anchor_names"] = {k.rsplit("::", 1)[1] for k in tab}
            # (a function of the reviewed tree that merely moved to another file keeps its name: rules may refer to it)
            new_helper = bool(tab) and (f.file + "::" + f.name) not in tab and f.name not in known_names and fid not in crate.aliases and len(live) <= 40
        if n != 1 and not accessor and not new_helper:
            continue
        if any(c.callee and c.callee.target == fid for c in f.all_calls()):
            continue
        # pure predicates stay calls: rules interpret them (is_forall_role etc.) instead of looking at a flag phi
        if f.local_ty(0) == "bool" and not any(f.local_ty(l).startswith("&mut") for l in range(1, f.argc + 1)):
            continue
        ok.add(fid)
    crate._cache[key] = ok
    crate._cache["accessor_policy"] = {fid for fid in ok if sites[fid] != 1} | {fid for fid in ok if sites[fid] == 1 and
        (lambda f: not any(bl["term"]["k"] == "switch" for bl in f.blocks if not bl["cleanup"]) and sum(1 for bl in f.blocks if not bl["cleanup"] and bl["term"]["k"] == "call") <= 1)(crate.bodies[fid])}
    return ok


def accessor_view(crate, body):
    """the body with tiny private accessors / constructor helpers (no branching, at most one call) spliced in"""
    default_inline_policy(crate)
    return inline_view(crate, body, depth=2, policy=crate._cache.get("accessor_policy", set()))


def inline_view(crate, body, depth=3, keep=(), policy=None, max_blocks=1500):
    """a synthetic Body in which calls to helper functions (policy: see default_inline_policy; `keep`: ids or
    names never inlined) are replaced by the helper's blocks.  Parameters of the helper become locals assigned
    from the arguments, its returns assign the call's destination.  Closures created inside an inlined helper
    keep pointing to the original helper as their parent."""
    ck = ("inline_view", body.id, id(body) if hasattr(body, "origin") else 0, depth, tuple(sorted(keep)), None if policy is None else tuple(sorted(policy)))
    if ck in crate._cache:
        return crate._cache[ck]
    pol = default_inline_policy(crate) if policy is None else policy
    j = dict(body.j)
    j["locals"] = [dict(x) for x in body.j["locals"]]
    j["vars"] = [dict(x) for x in body.j["vars"]]
    j["blocks"] = _shift(body.j["blocks"], 0, 0, 0)
    inlined = []
    work = [(i, 0) for i in range(len(j["blocks"]))]
    while work:
        bi, d = work.pop(0)
        blk = j["blocks"][bi]
        t = blk["term"]
        if blk["cleanup"] or t["k"] != "call" or d >= depth or len(j["blocks"]) > max_blocks:
            continue
        cal = Callee(t["func"])
        tgt = cal.target
        if tgt not in pol or tgt in keep or (cal.name in keep) or (getattr(crate, "aliases", {}).get(tgt) in keep) or tgt == body.id or t["target"] is None:
            continue
        cj = crate.bodies[tgt].j
        if len(t["args"]) != cj["argc"]:
            continue
        dl, db = len(j["locals"]), len(j["blocks"])
        j["locals"].extend(dict(x) for x in cj["locals"])
        for v in cj["vars"]:
            v2 = _shift(v, dl, 0, 0)
            j["vars"].append(v2)
        new_blocks = _shift(cj["blocks"], dl, db, 0)
        for nb in new_blocks:
            if nb["term"]["k"] == "return" and not nb["cleanup"]:
                nb["stmts"] = nb["stmts"] + [{"k": "assign", "lhs": t["dest"], "rv": {"k": "use", "op": {"k": "move", "pl": {"l": dl, "p": []}}}, "line": t.get("line"), "inl": tgt}]
                nb["term"] = {"k": "goto", "target": t["target"], "line": t.get("line")}
        # parameter passing
        for ai, a in enumerate(t["args"]):
            blk["stmts"] = blk["stmts"] + [{"k": "assign", "lhs": {"l": dl + 1 + ai, "p": []}, "rv": {"k": "use", "op": a}, "line": t.get("line"), "inl": tgt}]
        blk["term"] = {"k": "goto", "target": db, "line": t.get("line"), "inlined_call": tgt}
        j["blocks"].extend(new_blocks)
        inlined.append(tgt)
        work.extend((db + k, d + 1) for k in range(len(new_blocks)))
    if not inlined:
        crate._cache[ck] = body
        return body
    nb = Body(crate, j)
    # a helper steered by a flag / enum argument: the call site passes a constant, so the helper's dispatch on it is
    # decided — replace those switches by the one feasible edge (the other arms become unreachable)
    pruned = 0
    for sb in nb.switch_blocks():
        t = j["blocks"][sb]["term"]
        r = nb.role_of_operand(t["discr"])
        tgt = None
        if r[0] == "discr":
            inner = strip_role(r[1])
            if isinstance(inner, tuple) and inner[0] == "agg" and isinstance(inner[1], str) and "::" in inner[1]:
                apath, var = inner[1].rsplit("::", 1)
                adt = crate.adts.get(apath)
                if adt is not None and len(adt["variants"]) > 1:
                    names = [v["name"] for v in adt["variants"]]
                    if var in names:
                        idx = str(names.index(var))
                        hit = [c[1] for c in t["cases"] if c[0] == idx]
                        tgt = hit[0] if hit else t["otherwise"]
        elif r[0] == "const" and str(r[1]) in ("true", "false"):
            val = "1" if r[1] == "true" else "0"
            hit = [c[1] for c in t["cases"] if c[0] == val]
            tgt = hit[0] if hit else t["otherwise"]
        if tgt is not None:
            j["blocks"][sb]["term"] = {"k": "goto", "target": tgt, "line": t.get("line"), "pruned_switch": True}
            pruned += 1
    if pruned:
        nb = Body(crate, j)
        live = nb.reach([0])
        dead = [i for i in range(len(j["blocks"])) if i not in live and not j["blocks"][i]["cleanup"]]
        if dead:
            for i in dead:
                j["blocks"][i] = dict(j["blocks"][i], cleanup=True, dead=True)      # rules skip cleanup blocks
            nb = Body(crate, j)
    if getattr(crate, "aliases", None):
        for c in nb.calls:
            if c.callee is not None and c.callee.target in crate.aliases:
                c.callee.name = crate.aliases[c.callee.target]
    nb.pruned = pruned
    nb.inlined = inlined
    nb.origin = body
    # closures: those of the root plus those of every inlined helper (parents stay as they are)
    nb.closures = list(body.closures)
    for tgt in inlined:
        nb.closures.extend(crate.bodies[tgt].closures)
    nb.parent_body = body.parent_body
    nb.creation = body.creation
    crate._cache[ck] = nb
    return nb

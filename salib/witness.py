"""E4: compile-fail witnesses.  Builds /verif/witness against the repository under analysis and runs its
doc-tests with `cargo +nightly test --doc` (compile_fail with error codes + compiling no_run twins; nothing
is executed).  Results are cached by the repository hash."""
import fcntl
import json
import os
import re
import shutil
import subprocess

from . import facts

W_SRC = os.path.join(facts.VERIF, "witness")


def run(features="explanations"):
    h = facts.repo_hash() + ":" + facts.repo_hash(W_SRC) + ":" + features
    out_dir = os.path.join(facts.BUILD, "witness-results")
    os.makedirs(out_dir, exist_ok=True)
    cache = os.path.join(out_dir, "results-%s.json" % (features or "default"))
    with open(os.path.join(facts.BUILD, "witness.lock"), "w") as lk:
        fcntl.flock(lk, fcntl.LOCK_EX)
        if os.path.exists(cache):
            j = json.load(open(cache))
            if j.get("hash") == h:
                return j["results"]
        work = os.path.join(facts.BUILD, "witness-work")
        shutil.rmtree(work, ignore_errors=True)
        shutil.copytree(W_SRC, work, ignore=shutil.ignore_patterns("target", "Cargo.lock", "Cargo.toml"))
        with open(os.path.join(W_SRC, "Cargo.toml.in")) as f:
            man = f.read().replace("@REPO@", facts.REPO)
        with open(os.path.join(work, "Cargo.toml"), "w") as f:
            f.write(man)
        shutil.copyfile(os.path.join(facts.REPO, "Cargo.lock"), os.path.join(work, "Cargo.lock"))
        env = dict(os.environ, CARGO_TARGET_DIR=os.path.join(facts.BUILD, "tgt-witness"), CARGO_NET_OFFLINE="true")
        cmd = ["cargo", "+nightly", "test", "--doc", "--offline", "--no-fail-fast"]
        if features:
            cmd += ["--features", features]
        r = subprocess.run(cmd, cwd=work, env=env, stdout=subprocess.PIPE, stderr=subprocess.STDOUT, text=True)
        res = {}
        for m in re.finditer(r"^test src/lib.rs - (\w+) \(line \d+\)(?: - (compile fail|compile))? \.\.\. (\w+)", r.stdout, re.M):
            res[m.group(1)] = {"mode": m.group(2), "ok": m.group(3) == "ok"}
        if not res:
            raise facts.FactError("witness crate did not build / produced no doc-test results:\n" + r.stdout[-3000:])
        json.dump({"hash": h, "results": res}, open(cache, "w"), indent=1)
        return res


def check(ctx, names):
    """report witness / twin pairs for a property"""
    res = run()
    for n in names:
        w, t = res.get("w_" + n), res.get("t_" + n)
        if w is None or t is None:
            ctx.bad("witness-missing:" + n, "compile-fail witness %s or its twin did not run" % n)
            continue
        ctx.check(t["ok"], "twin-compiles:" + n, "twin t_%s (differs only in the offending line) compiles" % n,
                  "the compiling twin t_%s no longer compiles: the witness w_%s would 'fail to compile' for the wrong reason" % (n, n))
        ctx.check(w["ok"] and w["mode"] == "compile fail", "witness-rejected:" + n, "witness w_%s is rejected by the compiler with the expected error code" % n,
                  "witness w_%s now type-checks (or fails with a different error): the type-level guarantee it stands for is gone" % n)

#!/usr/bin/env python3
"""mkmustcall.py: for every named function of the reviewed library, record the crate-local functions that are called on
EVERY path from its entry to a normal return (single-use private helpers looked through).  rules/common.py:must_call_census
compares the current tree with this table: a function that can newly return without one of these calls has gained an early
exit / fast path in front of work it always did."""
import json, sys
sys.path.insert(0, "/verif")
from salib import facts, mir
from rules import common as C
out = {}
for cfg in ("default", "explanations", "checks", "checks_explanations"):
    crate = mir.Crate(facts.load(cfg, "slotted_egraphs"))
    tab = C.must_call_table(crate)
    for k, v in tab.items():
        out.setdefault(cfg, {})[k] = v
    out["loops:" + cfg] = C.loop_must_call_table(crate)
    out["clos:" + cfg] = C.closure_must_call_table(crate)
    out["co:" + cfg] = C.co_exec_table(crate)
    out["ghost:" + cfg] = C.ghost_table(crate)
    out["ret:" + cfg] = C.return_table(crate)
json.dump(out, open("/verif/mustcall.json", "w"), indent=0, sort_keys=True)
print({k: len(v) for k, v in out.items()})

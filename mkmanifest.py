#!/usr/bin/env python3
"""Regenerates MANIFEST.json from the table below (kept in one place so it stays valid)."""
import json, os
HERE = os.path.dirname(os.path.abspath(__file__))
BASELINE = "cd /repo && cargo nextest run --workspace --no-fail-fast --test-threads 8 --offline || cargo test --workspace --no-fail-fast --offline"

TRUST = ("Trusted base: rustc nightly's MIR construction and callee resolution, the sefacts fact dump, the salib "
         "CFG/role/dependence library, the frozen role tables in rules/. Decides necessary structural conditions only; "
         "the behavioural remainder named in level_claimed.text is not decided (DESIGN.md §6).")

CHECKS = {
 "C08": dict(text="Static necessary conditions of structural consistency: the three e-node indexes (hashcons, class node table, usages) have one writer set and are updated together with one key; the union-find has no writer reachable from a &self API and path compression combines the old edge with the recursive result; slot set, group, union-find edge and re-queue change together; code under `if CHECKS` is ghost (no mutation, no value escaping), so assertion builds compute the same states; zero user-written unsafe; rebuild-before-return. Panic-freedom over all histories is NOT decided (census reported only).",
             technique="custom MIR analysis: who-may-write role sets, must-pass-through, ghost-region effect analysis, unsafe census", ref="§4 C08"),
 "C09": dict(text="Static necessary conditions of canonical insertion: class allocation is dominated by a failed hashcons lookup and the hit path passes the e-graph mutably to nothing; lookup/lookup_rec_expr and the other &self API are read-only (receiver types, call-graph closure, interior-mutability census); add and lookup key the hashcons through the same strong-shape function; the looked-up invocation is filtered by the class slot set with the right orientation; rebuild-before-return; the allocating path drops redundant slots. Canonicity of returned values is not decided.",
             technique="custom MIR analysis: guard dominance, call-graph closure effect audit, sibling agreement on resolved callees, value dependence", ref="§4 C09"),
 "C13": dict(text="Static necessary conditions of 'nothing is lost': no call anywhere removes a class record or a union-find entry (with a positive control on the matcher); the class slot set has a single writer whose value is an intersection; every ProgressMeasure field is computed from its documented source; canonicalising a possibly stale handle uses the partial composition in the right orientation; path compression combines the old edge with the recursive result. Temporal monotonicity of the equality relation is not decided.",
             technique="custom MIR analysis: census of removal calls by resolved callee and receiver role, field-to-source value dependence, operand roles", ref="§4 C13"),
 "C14": dict(text="Static necessary conditions of the analysis fixpoint (join-and-propagate discipline): every store to a class datum is Analysis::merge of the current datum with make(node) or with the other class's datum, stored in the survivor; on the changed edge both the modify queue and the parents' re-queue are fed on every path; N::modify runs after the pending loop with canonical ids; new classes are seeded from make and queued; the work-list handler updates the datum before the analysis-only early return. Equality with the least fixpoint is not decided.",
             technique="custom MIR analysis: operand roles of datum stores, must-pass-through on the changed edge, guard dominance", ref="§4 C14"),
 "C06": dict(text="Static necessary conditions of cheapest-term extraction (Dijkstra discipline): candidate generation is exhaustive (loops over live classes, leaf e-nodes, usages and the heap exit only on exhaustion; pushes carry only the three legitimate guards); heap order reversed on cost; first pop wins; a parent's cost is computed only when all children are final and from their table costs; entry node, cost and key come from one popped element; extraction renames the stored node with the fresh-filling variant. Minimality as a value and user cost-function monotonicity are not decided.",
             technique="custom MIR analysis: loop-exit path rule, guard dominance, operand-role tables on the heap ordering impls", ref="§4 C06"),
 "C10": dict(text="Static necessary conditions of the permutation-group structure: a frozen convention table (x.compose(y) = first x then y; ot[x] maps stab to x) is checked against the operand kinds of every composition in orbit-tree construction, Schreier generators, enumeration, sifting and proof-carrying sifting, kinds being classified from the types of the collections values are drawn from; orbit-table keys and sift look-up keys; add_set retains exactly the non-members, reports growth iff non-empty and rebuilds from old|new; count is the product of orbit sizes; orbit uses all generators; generators() drops only the identity; triviality and the base-point search. Correctness of Schreier-Sims as mathematics is not decided.",
             technique="custom MIR analysis: operand-role (kind) table over resolved compose calls, guard dominance, value dependence", ref="§4 C10"),
 "C04": dict(text="Static necessary conditions of match completeness: the single-pattern matcher enumerates all live classes, all e-nodes of a class and all group-compatible weak variants of a node, every loop exits only on exhaustion, and the only skips are operator mismatch, shape mismatch and slot-bijection conflict (a frozen list; any other dominating guard is reported); the variant enumeration is the cartesian product of all_perms of every child with 'all groups trivial' as the only shortcut, and every return path of the weak-variant function is derived from it. That each planted instance fires is not decided.",
             technique="custom MIR analysis: loop-exit path rule, allowed-guard table over dominating conditions, value dependence of return paths", ref="§4 C04"),
 "C05": dict(text="Static necessary conditions of match soundness: a repeated pattern variable is accepted only behind EGraph::eq, an unbound one is recorded; the slot-map builder returns false on a key conflict and otherwise is_bijection() of the updated map; variants are accepted only on equal name-free shapes and a slot conflict abandons the variant; multi-pattern unify accepts only behind eq or after a successful slot union; the multi-pattern state is re-canonicalised after every slot union and the disequality constraint is tested in both directions; both matchers are read-only by receiver type and call-graph closure. That instantiations are represented is not decided.",
             technique="custom MIR analysis: guard dominance on non-empty returns, return-value role tables, call-graph closure effect audit", ref="§4 C05"),
 "C03": dict(text="Static necessary conditions of hygienic rewriting (capture avoidance comes from slots): both sides of a rule are instantiated from the same substitution and exactly those two are unioned; at the exposure points (enodes_applied, final_subst) every bound, redundant or uncovered slot is replaced by Slot::fresh(), occurrence loops are exhaustive and renaming is guarded by 'not a class slot'; a fresh name invented while renaming occurrences is memoised per slot (sibling agreement); b[x := t] replaces on equality of whole invocations; only Slot::fresh may invent names (census of numeric/named callers against a frozen list). Preservation of meaning in a model is not decided.",
             technique="custom MIR analysis: guard dominance on slot stores, loop-exit path rule, sibling-agreement (memoisation) rule, who-may-call census", ref="§4 C03"),
 "C07": dict(text="Static necessary conditions of proof validity, decided in the explanations configurations (which the pinned suite never builds): ProvenEqRaw is constructed only in the five *Proof::check kernels, each behind at least one premise guard and storing the checked equation, with private fields; leaves are produced only by union_instantiations from the user's justification and exactly the synified instantiations; orientation coherence between every permutation and the proof paired with it at the three sites (leader union, self-symmetry derivation, explanation), cross-checked against each other and against the invariant ProvenPerm::check asserts; composition/inverse/chaining helpers pair permutation algebra with the matching proof combinator (frozen role table); proof-carrying sifting mirrors sifting; the conclusion is the queried pair in order. Validity of each proof object as a value is not decided.",
             technique="custom MIR analysis: who-may-construct (kernel confinement), operand-role tables for orientation, sibling cross-check, guard dominance", ref="§4 C07"),
 "C17": dict(category="proof", text="Proof by abstract interpretation of slot.rs: a path-enumerating interpreter over affine forms with intervals and residues mod 4 discharges, on the MIR of every slot constructor, the obligations O1 (constructor privacy), O2 (residue class of every Slot(..) construction), O3 (counter = 1 mod 4, inductive), O4 (every store raises the counter; fresh() returns the pre-increment value), O5 (after parsing f<n> the counter is above that slot on both branches), O6 (interning: index = length before the single push, push and insert together, on a miss only, single writer), O7 (Display inverts the three encodings with the same constants and literals), O8 (numbers from text only in canonical decimal and below 2^30), O9 (every overflow assertion in slot.rs discharged). Assumes fewer than 2^30 fresh slots per thread.",
             technique="abstract interpretation over MIR (affine forms + intervals + residues, path enumeration), constructor-privacy census", ref="§4 C17",
             note="Trusted base: rustc MIR construction, sefacts, salib.absint, the std contracts of str::parse::<u32>, u32::to_string, HashMap::get/insert, Vec::push/len. The model of the canonical-number helper is re-verified from its own MIR on every run. Assumption: the u32 counter does not wrap (fewer than 2^30 - 2 fresh slots per thread)."),
 "C15": dict(text="Static necessary conditions of truthful saturation / stop reasons: apply_rewrites returns before != after with the first progress measurement dominating every searcher/applier invocation and the second post-dominating all of them; the measure's equality is derived over its four fields, each computed from its source; every StopReason variant is constructed only under its own condition (frozen reason table, counter on the greater side); hooks and limits are chained on every iteration, the loop ends only with a reason and pushes one record per round; the report's node count is total_number_of_nodes() read after the loop with no mutation in between. 'No measure change implies nothing observable changed' is argued, not decided.",
             technique="custom MIR analysis: dominance / post-dominance of measurement sites, condition table for constructor sites incl. closures, value-flow of report fields", ref="§4 C15"),
 "C19": dict(text="For the first sentence of the property (equality, hash and ordering depend only on the set of pairs) the check amounts to an inductive proof of the representation invariant 'keys strictly increasing': private field, closed writer set {new, insert, remove, values_mut, into_iter}, insert/remove write at the index binary search returned for the very key, values_mut projects values only, search is binary_search_by_key on the key, and Eq/Hash/Ord are the derived impls. For the operations (get, keys/values, inverse, identity, compose / compose_partial / compose_fresh, bijection_from_fresh_to, try_union, is_perm, is_bijection) an operand-role table decides that inserted keys and values come from the documented sources in the documented order. Agreement with a reference map on all sequences and the algebraic laws are not mechanically derived; the claimed level is therefore 'other', not 'proof'.",
             technique="custom MIR analysis: who-may-write closure of a private field, writer-idiom verification, derived-impl census, operand-role table", ref="§4 C19",
             note="Trusted base: rustc privacy checking and MIR, sefacts/salib, the std contract of slice::binary_search_by_key, smallvec insert/remove/index_mut behaving like Vec's."),
 "C20": dict(text="Determinism census over the type-checked program: every instantiation of std HashMap/HashSet in any MIR local, ADT field or signature uses the fixed-seed FxBuildHasher; calls into clocks, thread identity, environment, RNGs and pointer-to-integer casts are confined to a frozen exception table (run/ timing; the pointer-keyed ShowMap whose iteration is dominated by a sort on the stored insertion index; pointer sets compared for disjointness only); the only static is the thread-local slot table, and no atomics, locks or lazy globals occur in any field or local. Equality of whole transcripts is not decided.",
             technique="census over resolved types and callees (rustc_private facts), frozen exception table, dominance rule for sorted iteration", ref="§4 C20"),
 "C18": dict(text="Static panic audit of the parser: every bounds check, range index, overflow check, unwrap/expect and explicit panic reachable from Pattern::parse, RecExpr::parse and MultiPattern::parse (library) and in the generated from_syntax of all seven test languages and the LanguageChildren impls is discharged by a recognised guard idiom on the same value (Some-edge of slice.get(k), also through `?`; starts_with(literal) of matching byte length; char_indices offsets; len()==n; constant shifts; the slot.rs overflow obligations via the C17 interpreter; the is_ground guard before pattern_to_re) or reported; nodes are built only after their arity was compared with the consumed syntax; the printers' structural literals (decoded from the format templates in MIR) are exactly the tokens the tokenizer / multi-pattern parser dispatch on; pattern_to_re/re_to_pattern mirror each other. Round-trip equality of values is not decided.",
             technique="custom MIR analysis: panic-site census over the call-graph closure of the parse entry points with guard-idiom discharge (same-value reasoning), abstract interpretation for slot.rs arithmetic, format-template decoding", ref="§4 C18"),
 "C02": dict(text="Static necessary conditions of congruence-closure completeness: inter-procedural work-list summaries prove that no public &mut entry point returns with a non-empty work-list in any feature configuration; the drain loop exits only on empty; every class-level change re-queues usages with Full; PendingType::merge truth table; remove/re-insert pairing and self-symmetry derivation in the work-list handler; orbit closure feeds the stored slot set (known finding F1). Does not decide that the fixpoint equals the congruence closure.",
             technique="custom MIR analysis: inter-procedural must-pass-through summaries (greatest fixpoint), path rules, exhaustive constant evaluation of a 2x2 match, value dependence", ref="§4 C02"),
 "C01": dict(text="Static necessary conditions of equality soundness, decided on the MIR of every feature configuration: eq() answers true only via the class-group membership test behind the id and slot-set guards on canonicalised operands; the slot-set writer's cap is an intersection; add-permutation / merge branch discipline; union-find edge orientation. Does not decide soundness of computed slot maps as values.",
             technique="custom MIR analysis (rustc_private driver): guard dominance, operand-role tables, who-writes role sets", ref="§4 C01"),
}
PENDING = {}
for i in range(1, 21):
    pid = "C%02d" % i
    if pid not in CHECKS:
        PENDING[pid] = "static check for this property is designed (DESIGN.md §4) but not yet implemented in this commit; not claimed until it is"

def main():
    checks = []
    for pid, c in sorted(CHECKS.items()):
        checks.append({
            "property_id": pid,
            "quick_cmd": "./check %s --tier quick" % pid,
            "thorough_cmd": "./check %s --tier thorough" % pid,
            "evidence_file": "/verif/evidence/%s.json" % pid,
            "replay_cmd_template": "./check %s --replay {path}" % pid,
            "engine": "sefacts+salib",
            "level_claimed": {"category": c.get("category", "other"), "text": c["text"], "design_ref": "DESIGN.md " + c["ref"]},
            "level_note": c.get("note", TRUST),
            "technique": c["technique"],
        })
    m = {
        "version": 1,
        "setup_cmd": "./setup.sh",
        "hooks": {
            "guard": "slotted_egraphs_verif",
            "enable": "none needed: the analysis reads the compiler's own representation of /repo (no hooks in the repository)",
            "baseline_off_cmd": BASELINE,
            "source_commits": [],
            "add_only": True,
        },
        "engines": [
            {"name": "sefacts", "path": "/verif/sefacts", "serves_properties": sorted(CHECKS), "kind_free_text": "rustc_private driver dumping type-checked MIR facts (resolved callees, field names, ADTs, impls, statics, unsafe/hasher census) per feature configuration"},
            {"name": "salib", "path": "/verif/salib", "serves_properties": sorted(CHECKS), "kind_free_text": "Python analysis library: CFG, dominance, guard conditions, operand roles, value dependence, call graph, role-set discovery; rule runner"},
        ],
        "checks": checks,
        "notes": "Technique family: static analysis only. Every check re-extracts facts from /repo's working tree (cached by content hash). See DESIGN.md.",
        "not_applicable": [{"property_id": k, "reason": v} for k, v in sorted(PENDING.items())],
    }
    with open(os.path.join(HERE, "MANIFEST.json"), "w") as f:
        json.dump(m, f, indent=1)
        f.write("\n")

if __name__ == "__main__":
    main()
